#!/usr/bin/env python3
"""Regenerates MANIFEST.json from the table below (kept in one place so it stays valid)."""
import json, os, subprocess
V = os.path.dirname(os.path.abspath(__file__))
fix_commits = ['3033bba']
CLAIMED = {
 'C13': dict(level='proof', design='DESIGN.md section 4 (C13)',
   text='Deductive proof with CBMC code contracts (goto-instrument --dfcc): every buffer-variant conversion function of the 8 units is enforced against a contract generated from the property statement, callers against callee contracts, for all 2^8..2^64 values, no loop and no unwinding bound. Proof is the right level because one wrong constant in the hand-unrolled per-decade code is invisible to sampled tests.',
   note='Trusted: CBMC C++ front end on the shadow TU (extraction rules R-ANON/R-AUTO, hit counts and g++ type witnesses checked per run), CBMC bit-vector semantics, MiniSat/z3, stand-in <cstdint>/<cstring>/<string>. Not under contract: the enable_if dispatch templates int2string<T>/grouped_int2string<T>, GroupedInt, stringTo<T> (round trip).',
   technique='contract-based deductive verification: CBMC code contracts enforced per function with goto-instrument --dfcc, callees replaced by contracts, SAT/z3 back ends'),
}
NA = {}
def main():
    props = [json.loads(l) for l in open(os.path.join(V, 'properties.jsonl'))]
    na_reasons = json.load(open(os.path.join(V, 'not_applicable.json')))
    checks = []
    for p in props:
        i = p['id']
        if i in CLAIMED:
            c = CLAIMED[i]
            checks.append({'property_id': i, 'quick_cmd': 'bin/cv check %s --tier quick' % i,
                           'thorough_cmd': 'bin/cv check %s --tier thorough' % i,
                           'evidence_file': 'evidence/%s.json' % i,
                           'replay_cmd_template': 'bin/cv replay {path}', 'engine': 'cv',
                           'level_claimed': {'category': c['level'], 'text': c['text'], 'design_ref': c['design']},
                           'level_note': c['note'], 'technique': c['technique']})
    m = {'version': 1, 'setup_cmd': 'bin/cv setup',
         'hooks': {'guard': 'CELMA_VERIF', 'enable': 'no hook code exists: the checks read /repo/src directly (shadow extraction per run); -DCELMA_VERIF is reserved and unused',
                   'baseline_off_cmd': 'cmake --build /repo/_build -- -k 0 >/dev/null 2>&1; ctest --test-dir /repo/_build -j8 --timeout 900',
                   'source_commits': fix_commits, 'add_only': True},
         'engines': [{'name': 'cv', 'path': 'bin/cv', 'serves_properties': sorted(CLAIMED),
                      'kind_free_text': 'python driver: shadow extraction of /repo/src (must-fire rules) -> goto-cc -> goto-instrument --dfcc (contracts) -> cbmc (SAT/z3/cvc5) -> classification, counterexample trace -> native replay (g++ ASan/UBSan against the real sources)'}],
         'checks': checks,
         'not_applicable': [{'property_id': p['id'], 'reason': na_reasons[p['id']]} for p in props if p['id'] not in CLAIMED],
         'notes': 'Exit codes of bin/cv check: 0 all obligations discharged, 1 VIOLATION, 2 undecided (tool failure/timeout/extraction mismatch; never reported as violation). fix: commits in /repo are listed in hooks.source_commits and known_findings.json.'}
    json.dump(m, open(os.path.join(V, 'MANIFEST.json'), 'w'), indent=1)
main()
