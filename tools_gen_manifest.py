#!/usr/bin/env python3
"""Regenerates MANIFEST.json from the table below (kept in one place so it stays valid)."""
import json, os, subprocess
V = os.path.dirname(os.path.abspath(__file__))
fix_commits = [l.split()[2] for l in json.load(open(os.path.join(V, 'known_findings.json')))['fixed']]
CLAIMED = {
 'C13': dict(level='proof', design='DESIGN.md section 4 (C13)',
   text='Deductive proof with CBMC code contracts (goto-instrument --dfcc): every buffer-variant conversion function of the 8 units is enforced against a contract generated from the property statement, callers against callee contracts, for all 2^8..2^64 values, no loop and no unwinding bound. Proof is the right level because one wrong constant in the hand-unrolled per-decade code is invisible to sampled tests.',
   note='Trusted: CBMC C++ front end on the shadow TU (extraction rules R-ANON/R-AUTO, hit counts and g++ type witnesses checked per run), CBMC bit-vector semantics, MiniSat/z3, stand-in <cstdint>/<cstring>/<string>. Not under contract: the enable_if dispatch templates int2string<T>/grouped_int2string<T>, GroupedInt, stringTo<T> (round trip).',
   technique='contract-based deductive verification: CBMC code contracts enforced per function with goto-instrument --dfcc, callees replaced by contracts, SAT/z3 back ends'),
}
CLAIMED['C10'] = dict(level='proof', design='DESIGN.md section 4 (C10)',
   text='Deductive proof per capacity instance (L = 1, 2, 3, 8 quick; + 16 thorough): every in-reach public member of FixedString<L> is enforced with goto-instrument --dfcc against the contract "requires well-formed, arguments valid for what the overload documents, positions and counts unconstrained size_t; assigns only the object (and dest/other); ensures well-formed, no-NUL-stored => length equals strlen", with all CBMC memory-safety checks and the ISO preconditions of mem*/str* as obligations. An inductive representation invariant covers all operation sequences; wrap-around of position + count near 2^64 is an input no test enumerates.',
   note='Per-instance, not for all L; 255/256 and 65535/65536 boundaries not reached. Source strings <= L+3. Trusted: CBMC C++ front end on the shadow header (drops: iterator classes and overloads, cross-capacity template overloads, sprintf, constructors, stream output -- listed in the evidence), CBMC mem*/str* models, stand-in <string>. Eleven genuine defects found by this check were repaired by fix: commits (known_findings.json).',
   technique='contract-based deductive verification: representation invariant + frame contract per method, CBMC code contracts (goto-instrument --dfcc), SAT back end, unwinding assertions for capacity-bounded loops')
CLAIMED['C11'] = dict(level='proof', design='DESIGN.md section 4 (C11)',
   text='Deductive proof per small capacity instance (L = 3 for every method, L = 5 for mutators and compare in quick; 2, 3, 5, 8 thorough): content postconditions written from the C++ standard\'s description of basic_string (whole view: length and every character equals the std::string result cut at L; observers return std::string\'s result; == and != complementary) enforced with goto-instrument --dfcc for all contents and all in-domain arguments. Deviations that are genuine and not repaired are excluded as input regions and reported as KNOWN-FINDING.',
   note='Per-instance; source strings <= L+3 characters (bounded); NUL-free contents (the property quantifies over printable contents). Iteration in both directions, cross-capacity and iterator overloads, constructors not under contract. Trusted base as C10. Four open known findings (empty search string, empty character set for *_not_of, start position not clamped in the find_last family, empty ranges in the two-range compare).',
   technique='contract-based deductive verification: content postconditions (std::string semantics as finite expansions over ghost pre-state), CBMC code contracts (goto-instrument --dfcc), SAT back end')
CLAIMED['C19'] = dict(level='proof', design='DESIGN.md section 4 (C19)',
   text='Deductive proof per buffer size (N = 1, 2, 3, 8 with the empty policy; N = 1..4 with the counting policy): every public member of ReadBuffer/WriteBuffer is called once from an arbitrary state satisfying the representation invariant (window mirrors the source / sink ++ buffered = everything appended) and the invariant plus the per-call postconditions are discharged by CBMC; the preconditions of the environment hooks readData/writeData are obligations at every call. An inductive invariant covers every history of request sizes and every chunking of the source, which no finite test list does.',
   note='Harness mode (pre/post as assume/assert around one call of the real member; no assigns-frame check, replaced by guard bytes and exact-size blocks). Per instance, not for all N. Trusted: CBMC C++ front end on the textually instantiated shadow headers (rules incl. R-NSDMI listed in the evidence), stand-in <memory>, environment contract (source delivers 1..len bytes; termination not claimed), ghost normalisations (stream position and counters start at 0).',
   technique='contract-based deductive verification: inductive representation invariant + per-call postconditions discharged by CBMC (harness mode), environment hooks as assumed contracts with checked preconditions')
CLAIMED['C12'] = dict(level='other', design='DESIGN.md section 4 (C12)',
   text='Bounded stand-in (never counted as proved beyond the bound): every public member of DynamicBitset, the free binary operators and every iterator constructor/step are called once on an arbitrary bitset of size <= 8 (12 thorough) with arbitrary bits and compared, as named CBMC obligations, with the reference bit-vector semantics; positions and shift distances are full size_t, compound operators are compared with their binary counterparts on the same operands, std::vector<bool> is an assumed-contract stand-in whose operator[] precondition index < size() makes every access outside the bitset an obligation. Level other because the bitset size is bounded.',
   note='Bounded: size <= CAP, growth/shift results <= 2*CAP+4 (larger results are cut paths). Harness mode (pre/post as assume/assert around one call). Trusted: CBMC C++ front end on the shadow unit (T-INST of the iterator templates, R-COPYCTOR, R-CONST, R-THROW ... listed in the evidence), stand-in <vector>/<algorithm>. to_string, bitset<N> and vector<bool>&& members not under contract. One open known finding (shift distance > SIZE_MAX - size), three defects repaired by fix: commits.',
   technique='contract-based verification with CBMC in harness mode, bounded (size <= CAP): reference bit-vector postconditions per method over an assumed-contract std::vector<bool>')
CLAIMED['C07'] = dict(level='other', design='DESIGN.md section 4 (C07)',
   text='FIRST SENTENCE ONLY, bounded: the real splitString is called on join(quote(words)) for every list of up to 3 words of arbitrary non-NUL bytes (instances: 1x3, 2x2, 2x1, 3x1 bytes quick; up to 3x2 / 2x3 / 1x4 thorough) in every quoting style (escaped as the property states, whole word single- or double-quoted, every character in its own style), 1-2 separating blanks, optional leading/trailing blanks, and CBMC discharges that the result is exactly the word list (count, lengths, every byte). The file/environment/override half of C07 relates two evaluations of the whole handler (std::ifstream, getenv) and is not applicable to contract-based verification with the installed front end.',
   note='Bounded word count/length; harness mode. Trusted: CBMC C++ front end on the shadow unit (R-NNS, R-ANON, R-ALIAS, R-RFOR, R-NEWSIZE), inline stand-in <string>/<vector>. Second and third sentence of the property are NOT decided.',
   technique='contract-based verification with CBMC in harness mode, bounded: round-trip postcondition split(join(quote(words))) == words on the real splitString')
CLAIMED['C04'] = dict(level='other', design='DESIGN.md section 4 (C04)',
   text='PARTIAL and bounded: decides memory safety of the raw-memory code reachable from evaluation. (1) ArgListIterator: a cursor invariant (word index in 1..argc+1, character position inside the word, at the terminator only when the rest is pending as a value) is established by the constructor and preserved by operator++/determineNextArg from ANY state satisfying it, with all CBMC pointer/bounds checks on, argv of up to 4 separately allocated words of up to 5 arbitrary non-NUL bytes -- inductive, so every history of steps is covered; (2) ArgString2Array construction/destruction for every NUL-free string up to 6 bytes (argv layout, exact allocation sizes, matching delete[], no leak); (3) the two program-name copies of Handler, sliced out mechanically, for names of unbounded length; (4) a static scan listing every file of the argument-handling code that touches raw memory. The handler as a whole (boost, iostreams, std::function, TypedArg<...>) is outside the front end.',
   note='Bounded argv/string sizes; termination and the only-std::exception clause not decided; typed destinations (TypedArg<T[N]>, containers) not under contract. Trusted: CBMC C++ front end on the shadow units (T-INST, R-NSDMI, R-CONST, R-THROW-cut listed in the evidence), stand-ins. One defect repaired by a fix: commit (program-name buffer one byte short, scalar delete).',
   technique='contract-based verification with CBMC in harness mode, bounded: inductive cursor invariant for ArgListIterator, allocation/layout postconditions for ArgString2Array, sliced program-name copies against the strcpy contract')
NA = {}
def main():
    props = [json.loads(l) for l in open(os.path.join(V, 'properties.jsonl'))]
    na_reasons = json.load(open(os.path.join(V, 'not_applicable.json')))
    checks = []
    for p in props:
        i = p['id']
        if i in CLAIMED:
            c = CLAIMED[i]
            checks.append({'property_id': i, 'quick_cmd': 'bin/cv check %s --tier quick' % i,
                           'thorough_cmd': 'bin/cv check %s --tier thorough' % i,
                           'evidence_file': 'evidence/%s.json' % i,
                           'replay_cmd_template': 'bin/cv replay {path}', 'engine': 'cv',
                           'level_claimed': {'category': c['level'], 'text': c['text'], 'design_ref': c['design']},
                           'level_note': c['note'], 'technique': c['technique']})
    m = {'version': 1, 'setup_cmd': 'bin/cv setup',
         'hooks': {'guard': 'CELMA_VERIF', 'enable': 'no hook code exists: the checks read /repo/src directly (shadow extraction per run); -DCELMA_VERIF is reserved and unused',
                   'baseline_off_cmd': 'cmake --build /repo/_build -- -k 0 >/dev/null 2>&1; ctest --test-dir /repo/_build -j8 --timeout 900',
                   'source_commits': fix_commits, 'add_only': True},
         'engines': [{'name': 'cv', 'path': 'bin/cv', 'serves_properties': sorted(CLAIMED),
                      'kind_free_text': 'python driver: shadow extraction of /repo/src (must-fire rules) -> goto-cc -> goto-instrument --dfcc (contracts) -> cbmc (SAT/z3/cvc5) -> classification, counterexample trace -> native replay (g++ ASan/UBSan against the real sources)'}],
         'checks': checks,
         'not_applicable': [{'property_id': p['id'], 'reason': na_reasons[p['id']]} for p in props if p['id'] not in CLAIMED],
         'notes': 'Exit codes of bin/cv check: 0 all obligations discharged, 1 VIOLATION, 2 undecided (tool failure/timeout/extraction mismatch; never reported as violation). fix: commits in /repo are listed in hooks.source_commits and known_findings.json.'}
    json.dump(m, open(os.path.join(V, 'MANIFEST.json'), 'w'), indent=1)
main()
