#!/bin/bash
# usage: tools_try_seed.sh <patch.diff> <PROP> [extra cv args]   -- applies a seeded change to /repo, runs the check, undoes it
set -u
patch=$1; prop=$2; shift 2
git -C /repo apply "$patch" || { echo "patch does not apply"; exit 3; }
cd /verif && bin/cv check "$prop" "$@" 2>/tmp/try_seed.err | grep -E 'VIOLATION|KNOWN' | head -8
rc=${PIPESTATUS[0]}
tail -1 /tmp/try_seed.err
git -C /repo checkout -- .
echo "exit=$rc"
