"""C13 -- integer-to-string conversions are exact (DESIGN.md section 4, C13).

Contracts are generated (finite expansions over digit positions) from the property statement:
text of v = NDIG(v) bytes, byte at right offset k = '0' + (floor(v / 10^k) mod 10), NUL after it,
'-' in front for negative values, group character at right offsets 3, 7, 11, ... of the grouped text.
"""
import os
import re

from . import core
from .core import Job, Rule, R_ANON, R_AUTO, Undecided

WIDTHS = {8: 3, 16: 5, 32: 10, 64: 20}
# number of digits of |min| of the signed type: the largest digit count a negative value can have
NEG_MAXDIG = {8: 3, 16: 5, 32: 10, 64: 19}
POS_MAXDIG = {8: 3, 16: 5, 32: 10, 64: 19}   # digits of max of the signed type


def suffix(W):
    return 'ull' if W == 64 else 'u'


def spec_text(W):
    M = WIDTHS[W]
    s = suffix(W)
    L = ['#include <stdint.h>', '#include <stddef.h>',
         'typedef uint%d_t UT; typedef int%d_t ST;' % (W, W),
         '#define MAXDIG %d' % M,
         '/* Q_k(v) = floor(v / 10^k): repeated floor division, the textbook definition */',
         '#define Q0(v) ((UT)(v))']
    for k in range(1, M):
        L.append('#define Q%d(v) (Q%d(v)/10u)' % (k, k - 1))
    L.append('#define DIG(k,v) ((char)(\'0\' + (Q##k(v) % 10u)))')
    pw = [10 ** k for k in range(1, M)]
    L.append('/* NDIG by threshold comparison, independent of the code\'s binary search */')
    L.append('#define NDIG(v) (1 + ' + ' + '.join('((UT)(v) >= %d%s)' % (p, s) for p in pw) + ')')
    sel = ':'.join('(n)==%d?%d%s' % (k, 10 ** k, s) for k in range(1, M - 1)) + ':%d%s' % (10 ** (M - 1), s)
    L.append('#define LT_P10(v,n) ((n)>=MAXDIG || (UT)(v) < (%s))' % sel)
    L.append('#define ABS(v) ((UT)((UT)0 - (UT)(v)))')
    L.append('#define GLEN(n) ((n) + ((n)-1)/3)')
    L.append('#define R __CPROVER_return_value')
    L.append('/* ghost: the (absolute) value whose text is produced; every contract ties its value argument to it,')
    L.append('   so all digit terms of a caller proof are over one symbol (no division reasoning needed there) */')
    L.append('extern UT cv_gv; unsigned long cv_parse_abs; int cv_parse_neg; int cv_rt_ok;')
    L.append('#define G cv_gv')
    return '\n'.join(L) + '\n'


def goff(k):
    return k + k // 3


def contracts_text(W):
    """All pure contracts for width W. N0 (digit count of the instance) comes from -DN0."""
    M = WIDTHS[W]
    GM = M + (M - 1) // 3
    o = [spec_text(W)]
    # ---- intW_str_length
    o.append('uint8_t strlen_contract(UT v)\n__CPROVER_assigns()\n'
             '__CPROVER_ensures(R == NDIG(v))\n;\nUT cv_gv; unsigned long cv_parse_abs; int cv_parse_neg; int cv_rt_ok;')
    # ---- convert (plain)
    o.append('void convert_contract(char* e, UT v, uint8_t n)\n'
             '__CPROVER_requires(v == G && 1 <= n && n <= MAXDIG && LT_P10(G,n))\n'
             '__CPROVER_requires(__CPROVER_w_ok(e - (n-1), n))\n'
             '__CPROVER_assigns(e[0]' + ''.join('; n>=%d: e[-%d]' % (k + 1, k) for k in range(1, M)) + ')\n'
             + ''.join('__CPROVER_ensures(n < %d || e[-%d] == DIG(%d,G))\n' % (k + 1, k, k) for k in range(M))
             + ';')
    # ---- convert (grouped)
    o.append('void gconvert_contract(char* e, UT v, uint8_t n, char g)\n'
             '__CPROVER_requires(v == G && 1 <= n && n <= MAXDIG && LT_P10(G,n))\n'
             '__CPROVER_requires(__CPROVER_w_ok(e - (GLEN(n)-1), GLEN(n)))\n'
             '__CPROVER_assigns(e[0]' + ''.join('; GLEN(n)>=%d: e[-%d]' % (k + 1, k) for k in range(1, GM)) + ')\n'
             + ''.join('__CPROVER_ensures(n < %d || e[-%d] == DIG(%d,G))\n' % (k + 1, goff(k), k) for k in range(M))
             + ''.join('__CPROVER_ensures(n <= %d || e[-%d] == g)\n' % (3 * (j + 1), 4 * j + 3)
                       for j in range((M - 1) // 3))
             + ';')

    # ---- buffer callers, one instance per digit count N0 (case split of one contract, the
    #      covering obligation 1 <= NDIG <= MAXDIG is h_cover)
    def text_clauses(base, val, grouped):
        # base: index of the first text byte (0 or 1 after the sign)
        c = []
        n = 'GLEN(N0)' if grouped else 'N0'
        for k in range(M):
            off = goff(k) if grouped else k
            c.append('__CPROVER_ensures(N0 < %d || b[%d + %s - 1 - %d] == DIG(%d,%s))\n' % (k + 1, base, n, off, k, val))
        if grouped:
            for j in range((M - 1) // 3):
                c.append('__CPROVER_ensures(N0 <= %d || b[%d + %s - 1 - %d] == g)\n' % (3 * (j + 1), base, n, 4 * j + 3))
        c.append('__CPROVER_ensures(b[%d + %s] == 0)\n' % (base, n))
        return ''.join(c)

    for grouped in (False, True):
        p = 'g' if grouped else ''
        garg = ', char g' if grouped else ''
        n = 'GLEN(N0)' if grouped else 'N0'
        o.append('int %sutos_contract(char* b, UT v%s)\n' % (p, garg) +
                 '__CPROVER_requires(v == G && NDIG(G) == N0)\n'
                 '__CPROVER_requires(__CPROVER_is_fresh(b, %s + 1))\n' % n +
                 '__CPROVER_assigns(__CPROVER_object_whole(b))\n'
                 '__CPROVER_ensures(R == %s)\n' % n + text_clauses(0, 'G', grouped) + ';')
        o.append('int %snegtos_contract(char* b, ST v%s)\n' % (p, garg) +
                 '__CPROVER_requires(v < 0 && ABS(v) == G && NDIG(G) == N0)\n'
                 '__CPROVER_requires(__CPROVER_is_fresh(b, %s + 2))\n' % n +
                 '__CPROVER_assigns(__CPROVER_object_whole(b))\n'
                 '__CPROVER_ensures(R == %s + 1)\n' % n +
                 '__CPROVER_ensures(b[0] == \'-\')\n' + text_clauses(1, 'G', grouped) + ';')
        # signed dispatch: three regions selected by -DSGN
        o.append('#if SGN == 0\n'
                 'int %sitos_contract(char* b, ST v%s)\n' % (p, garg) +
                 '__CPROVER_requires(v == 0)\n'
                 '__CPROVER_requires(__CPROVER_is_fresh(b, 2))\n'
                 '__CPROVER_assigns(__CPROVER_object_whole(b))\n'
                 '__CPROVER_ensures(R == 1 && b[0] == \'0\' && b[1] == 0)\n;\n'
                 '#elif SGN == 1\n'
                 'int %sitos_contract(char* b, ST v%s)\n' % (p, garg) +
                 '__CPROVER_requires(v > 0 && (UT)v == G && NDIG(G) == N0)\n'
                 '__CPROVER_requires(__CPROVER_is_fresh(b, %s + 1))\n' % n +
                 '__CPROVER_assigns(__CPROVER_object_whole(b))\n'
                 '__CPROVER_ensures(R == %s)\n' % n + text_clauses(0, 'G', grouped) + ';\n'
                 '#else\n'
                 'int %sitos_contract(char* b, ST v%s)\n' % (p, garg) +
                 '__CPROVER_requires(v < 0 && ABS(v) == G && NDIG(G) == N0)\n'
                 '__CPROVER_requires(__CPROVER_is_fresh(b, %s + 2))\n' % n +
                 '__CPROVER_assigns(__CPROVER_object_whole(b))\n'
                 '__CPROVER_ensures(R == %s + 1)\n' % n +
                 '__CPROVER_ensures(b[0] == \'-\')\n' + text_clauses(1, 'G', grouped) + ';\n'
                 '#endif')
    # ---- "the buffer variants write the same text": with the group character omitted, the buffer overloads of the dispatch header
    #      must group with the character the std::string overloads default to (CV_GDEF, read from the header text each run)
    import re as _re
    for name in ('gutos_contract', 'gitos_contract'):
        blk = next(x for x in o if _re.search(r'\b%s\(' % name, x))
        blk = blk.replace(name, name.replace('_contract', '_def_contract')).replace(', char g)', ')')
        blk = _re.sub(r'== g\)', '== CV_GDEF)', blk)
        o.append('/* group character omitted */\n' + blk)
    # ---- std::string variants: a wrapper (compiled with the unit) copies the returned string into `out` and converts it
    #      back with celma::format::stringTo<T>; the contract pins the text and the round trip
    o.append('extern unsigned long cv_parse_abs; extern int cv_parse_neg; extern int cv_rt_ok;')
    for grouped in (False, True):
        p = 'g' if grouped else ''
        garg = ', char g' if grouped else ''
        n = 'GLEN(N0)' if grouped else 'N0'
        rt = '' if grouped else '__CPROVER_ensures(cv_rt_ok == 1)  /* converting the text back (stringTo<T>) yields the original value */\n'
        frame = '__CPROVER_assigns(__CPROVER_object_whole(b), cv_parse_abs, cv_parse_neg, cv_rt_ok)\n'
        o.append('size_t %ssutos_contract(UT v%s, char* b)\n' % (p, garg) +
                 '__CPROVER_requires(v == G && NDIG(G) == N0)\n'
                 '__CPROVER_requires(__CPROVER_is_fresh(b, %s + 1))\n' % n + frame +
                 '__CPROVER_ensures(R == %s)  /* std::string::length() */\n' % n + text_clauses(0, 'G', grouped) + rt + ';')
        o.append('#if SGN == 0\n'
                 'size_t %ssitos_contract(ST v%s, char* b)\n' % (p, garg) +
                 '__CPROVER_requires(v == 0 && G == 0)\n__CPROVER_requires(__CPROVER_is_fresh(b, 2))\n' + frame +
                 '__CPROVER_ensures(R == 1 && b[0] == \'0\' && b[1] == 0)\n' + rt + ';\n'
                 '#elif SGN == 1\n'
                 'size_t %ssitos_contract(ST v%s, char* b)\n' % (p, garg) +
                 '__CPROVER_requires(v > 0 && (UT)v == G && NDIG(G) == N0)\n'
                 '__CPROVER_requires(__CPROVER_is_fresh(b, %s + 1))\n' % n + frame +
                 '__CPROVER_ensures(R == %s)\n' % n + text_clauses(0, 'G', grouped) + rt + ';\n'
                 '#else\n'
                 'size_t %ssitos_contract(ST v%s, char* b)\n' % (p, garg) +
                 '__CPROVER_requires(v < 0 && ABS(v) == G && NDIG(G) == N0)\n'
                 '__CPROVER_requires(__CPROVER_is_fresh(b, %s + 2))\n' % n + frame +
                 '__CPROVER_ensures(R == %s + 1)\n' % n +
                 '__CPROVER_ensures(b[0] == \'-\')\n' + text_clauses(1, 'G', grouped) + rt + ';\n'
                 '#endif')
    # ---- covering obligation of the case split + spec self-consistency
    o.append('void h_cover(void) { UT v; ST s;\n'
             '  __CPROVER_assert(1 <= NDIG(v) && NDIG(v) <= MAXDIG, "case split covers every value: 1 <= NDIG(v) <= MAXDIG");\n'
             '  __CPROVER_assert(s >= 0 || (1 <= NDIG(ABS(s)) && NDIG(ABS(s)) <= %d), "case split covers every negative value");\n' % NEG_MAXDIG[W] +
             '  __CPROVER_assert(s <= 0 || (1 <= NDIG(s) && NDIG(s) <= %d), "case split covers every positive signed value");\n' % POS_MAXDIG[W] +
             '  __CPROVER_assert(0, "CV_CANARY"); }')
    return '\n\n'.join(o) + '\n'


def harness_text(W, grouped):
    stem = ('grouped_int%d_to_string' % W) if not grouped is False else ('int%d_to_string' % W)
    if grouped:
        stem = 'grouped_int%d_to_string' % W
        U, N, I = 'groupedUint%dtoString' % W, 'groupedInt%dnegToString' % W, 'groupedInt%dtoString' % W
        g, gd = ', g', ' char g;'
    else:
        stem = 'int%d_to_string' % W
        U, N, I = 'uint%dtoString' % W, 'int%dnegToString' % W, 'int%dtoString' % W
        g, gd = '', ''
    return '''// generated harness: exactly one call of the function under contract per entry point
#include "library/format/detail/%(stem)s.cpp"
#include "celma/format/string_to.hpp"
#define MAXTXT (N0 + (N0 - 1) / 3 + 2)   /* text + sign + terminator of this instance */
typedef uint%(W)d_t UT; typedef int%(W)d_t ST;
using namespace celma::format::detail;
#define CANARY __CPROVER_assert(0, "CV_CANARY")
extern "C" UT cv_gv;
#define GHOST { UT cvin_g; cv_gv = cvin_g; }
#define GL (N0 + (N0-1)/3)
extern "C" {
void h_strlen() { UT v; int%(W)d_str_length(v); CANARY; }
#if !defined(GROUPED) || %(W)d == 8   /* the 8-bit grouped unit has a plain convert(): 3 digits need no group character */
void h_convert() { GHOST; char buf[N0]; cv_anon::convert(buf + N0 - 1, cv_gv, N0); CANARY; }
#else
void h_convert() { GHOST; char buf[GL]; char g; cv_anon::convert(buf + GL - 1, cv_gv, N0, g); CANARY; }
#endif
void h_utos() { GHOST; char* b; UT v;%(gd)s %(U)s(b, v%(g)s); CANARY; }
void h_negtos() { GHOST; char* b; ST v;%(gd)s %(N)s(b, v%(g)s); CANARY; }
void h_itos() { GHOST; char* b; ST v;%(gd)s %(I)s(b, v%(g)s); CANARY; }
// std::string variants: copy the returned string out (length() + 1 bytes incl. the terminator), then the round trip
extern int cv_rt_ok;
#define COPY_OUT size_t n = s.length(); for (size_t i = 0; i < MAXTXT + 1; ++i) if (i <= n) b[i] = s.c_str()[i];
#ifndef GROUPED
#define ROUNDTRIP(T, neg) cv_parse_abs = cv_gv; cv_parse_neg = (neg); { T back = celma::format::stringTo( s, (T*)0); cv_rt_ok = (back == v); }
#else
#define ROUNDTRIP(T, neg)
#endif
size_t w_sutos(UT v%(garg)s, char* b) { std::string s = %(U)s(v%(g)s); COPY_OUT ROUNDTRIP(UT, 0) return n; }
size_t w_sitos(ST v%(garg)s, char* b) { std::string s = %(I)s(v%(g)s); COPY_OUT ROUNDTRIP(ST, v < 0) return n; }
void h_sutos() { GHOST; char* b; UT v;%(gd)s w_sutos(v%(g)s, b); CANARY; }
void h_sitos() { GHOST; char* b; ST v;%(gd)s w_sitos(v%(g)s, b); CANARY; }
}
// the public dispatch headers int2string.hpp / grouped_int2string.hpp (T-INST of the enable_if overload sets, see R-SFINAE):
// the overload selected for the W-bit unsigned / signed type carries the contract of the converter it must forward to
#define CV_T(b, s) CV_T_##b##_##s
#define CV_T_1_true int8_t
#define CV_T_1_false uint8_t
#define CV_T_2_true int16_t
#define CV_T_2_false uint16_t
#define CV_T_4_true int32_t
#define CV_T_4_false uint32_t
#define CV_T_8_true int64_t
#define CV_T_8_false uint64_t
#ifndef GROUPED
#include "celma/format/int2string.hpp"
#define DISPATCH celma::format::int2string
#else
#include "celma/format/grouped_int2string.hpp"
#define DISPATCH celma::format::grouped_int2string
#endif
extern "C" {
void h_dutos() { GHOST; char* b; UT v;%(gd)s DISPATCH(b, v%(g)s); CANARY; }
void h_ditos() { GHOST; char* b; ST v;%(gd)s DISPATCH(b, v%(g)s); CANARY; }
size_t w_dsutos(UT v%(garg)s, char* b) { std::string s = DISPATCH(v%(g)s); COPY_OUT ROUNDTRIP(UT, 0) return n; }
size_t w_dsitos(ST v%(garg)s, char* b) { std::string s = DISPATCH(v%(g)s); COPY_OUT ROUNDTRIP(ST, v < 0) return n; }
#ifdef GROUPED
int w_ddef_utos(char* b, UT v) { return DISPATCH(b, v); }   /* group character omitted */
int w_ddef_itos(char* b, ST v) { return DISPATCH(b, v); }
void h_ddef_utos() { GHOST; char* b; UT v; w_ddef_utos(b, v); CANARY; }
void h_ddef_itos() { GHOST; char* b; ST v; w_ddef_itos(b, v); CANARY; }
#endif
void h_dsutos() { GHOST; char* b; UT v;%(gd)s w_dsutos(v%(g)s, b); CANARY; }
void h_dsitos() { GHOST; char* b; ST v;%(gd)s w_dsitos(v%(g)s, b); CANARY; }
}
''' % dict(stem=stem, W=W, U=U, N=N, I=I, g=g, gd=gd, garg=(', char g' if grouped else ''))


class Unit:
    """Shadow + generated files for C13, built once per run."""

    def __init__(self, scratch):
        self.scratch = scratch
        self.shadow = core.Shadow(scratch)
        self.files = {}
        self.clauses = {}
        for W in WIDTHS:
            for pre in ('', 'grouped_'):
                self.shadow.extract('library/format/detail/%sint%d_to_string.cpp' % (pre, W),
                                    [R_ANON(), R_AUTO((4, 10))])
                self.shadow.extract('celma/format/detail/%sint%d_to_string.hpp' % (pre, W), [])
            self.shadow.extract('celma/format/detail/int%d_str_length.hpp' % W, [R_AUTO(1)])
            self.files[(W, 'c')] = scratch.write('gen/c13_w%d.c' % W, contracts_text(W))
            self.clauses['c13_w%d.c' % W] = contracts_text(W).splitlines()
            self.files[(W, False)] = scratch.write('gen/h13_w%d.cpp' % W, harness_text(W, False))
            self.files[(W, True)] = scratch.write('gen/h13_w%d_g.cpp' % W, harness_text(W, True))
        # T-INST: explicit specialisations that differ only in the return type collide in the front end's mangling;
        # they become overloads selected by a tag pointer (the type -> std::sto* mapping, which is what is verified, is untouched)
        self.shadow.extract('celma/format/string_to.hpp', [
            Rule('T-INST-primary', r'^template< typename T> T stringTo\( const std::string& std\);\n', '', 1),
            Rule('T-INST-spec', r'template<> t stringTo< t>\( const std::string& str\)', 'inline t stringTo( const std::string& str, t*)', 1)])
        # R-SFINAE: enable_if overload sets are not supported by the front end; the eight (size, signedness) rows of the dispatch
        # header are textually instantiated with the fixed-width type of that row (CV_T(b, s), defined by the harness and
        # witnessed with g++: each type satisfies exactly the enable_if condition of its row)
        self.shadow.extract('celma/format/int2string.hpp', [
            Rule('R-SFINAE-macro', r'#define  TEMPLATE_ENABLE_IF\( b, s, r\) \\\n   template< typename T> \\\n      std::enable_if_t< std::is_integral< T>::value && \(sizeof\( T\) == b\) && \\\n'
                                   r'                        std::is_signed< T>::value == s, \\\n                        r>',
                 '#define  TEMPLATE_ENABLE_IF( b, s, r) inline r', 1),
            Rule('R-SFINAE-T', r'int2string\( T value\)', 'int2string( CV_T( b, s) value)', 1),
            Rule('R-SFINAE-T-buf', r'int2string\( char\* buffer, T value\)', 'int2string( char* buffer, CV_T( b, s) value)', 1),
            Rule('drop-type_traits', r'#include <type_traits>\n', '', 1)])
        def pre_g(t):
            i, j = t.index('template< typename T = int32_t'), t.index('} // namespace format')
            return t[:i] + t[j:]
        self.shadow.dropped += ['GroupedInt<T,S> class template and groupedInt<T>() (stream wrapper)']
        self.shadow.extract('celma/format/grouped_int2string.hpp', [
            Rule('R-SFINAE-macro', r'#define  TEMPLATE_ENABLE_IF\( b, s, r\) \\\n   template< typename T> \\\n      std::enable_if_t< std::is_integral< T>::value && \(sizeof\( T\) == b\) \\\n'
                                   r'                        && std::is_signed< T>::value == s, \\\n                        r>',
                 '#define  TEMPLATE_ENABLE_IF( b, s, r) inline r', 1),
            Rule('R-SFINAE-T', r'grouped_int2string\( T value,', 'grouped_int2string( CV_T( b, s) value,', 1),
            Rule('R-SFINAE-T-buf', r'grouped_int2string\( char\* buffer, T value,', 'grouped_int2string( char* buffer, CV_T( b, s) value,', 1),
            Rule('drop-includes', r'#include <(type_traits|iostream)>\n', '', 2)], pre=pre_g)
        gh = open(os.path.join(core.SRC, 'celma/format/grouped_int2string.hpp')).read()
        md = re.search(r"grouped_int2string\( T value, char group_char = ('(?:\\.|[^'\\])')\)", gh)
        if not md:
            raise Undecided('extraction: default group character of grouped_int2string( T value, ...) not found')
        self.gdef = md.group(1)
        self.witnesses = []
        self.witness()

    def witness(self):
        # R-AUTO witness: the real g++ deduces for every rewritten `auto` exactly the type R-AUTO writes
        wdir = self.scratch.path('witness', '.keep')
        wdir = os.path.dirname(wdir)
        for W in WIDTHS:
            h = 'celma/format/detail/int%d_str_length.hpp' % W
            out = os.path.join(wdir, h)
            os.makedirs(os.path.dirname(out), exist_ok=True)
            open(out, 'w').write(core.auto_witness_text(open(os.path.join(core.SRC, h)).read()))
            for pre in ('', 'grouped_'):
                c = 'library/format/detail/%sint%d_to_string.cpp' % (pre, W)
                out = os.path.join(wdir, c)
                os.makedirs(os.path.dirname(out), exist_ok=True)
                open(out, 'w').write(core.auto_witness_text(open(os.path.join(core.SRC, c)).read()))
                self.witnesses.append(core.gxx_syntax(out, [wdir, core.SRC], 'R-AUTO type witness ' + c))
        t = self.scratch.write('witness/sfinae.cpp', '#include <cstdint>\n#include <type_traits>\n#include <string>\n#include "celma/format/int2string.hpp"\n' + ''.join(
            'static_assert(std::is_integral<%s>::value && sizeof(%s) == %d && std::is_signed<%s>::value == %s, "R-SFINAE row");\n'
            'static_assert(std::is_same<decltype(celma::format::int2string((char*)0, (%s)0)), int>::value, "row selected");\n' % (t_, t_, b, t_, sg, t_)
            for b in (1, 2, 4, 8) for sg, t_ in (('true', 'int%d_t' % (8 * b)), ('false', 'uint%d_t' % (8 * b)))))
        self.witnesses.append(core.gxx_syntax(t, [core.SRC], 'R-SFINAE witness: CV_T(b,s) satisfies the enable_if row (g++)'))
        t = self.scratch.write('witness/sfinae_g.cpp', '#include <cstdint>\n#include <type_traits>\n#include <string>\n#include "celma/format/grouped_int2string.hpp"\n' + ''.join(
            'static_assert(std::is_same<decltype(celma::format::grouped_int2string((char*)0, (%s)0)), int>::value, "row selected");\n' % t_
            for b in (1, 2, 4, 8) for t_ in ('int%d_t' % (8 * b), 'uint%d_t' % (8 * b))))
        self.witnesses.append(core.gxx_syntax(t, [core.SRC], 'R-SFINAE witness (grouped header, g++)'))
        t = self.scratch.write('witness/lp64.cpp', '#include <cstdint>\n#include <cstddef>\n'
                               'static_assert(sizeof(int)==4 && sizeof(long)==8 && sizeof(size_t)==8 && sizeof(void*)==8, "LP64");\n'
                               'static_assert(std::is_same<uint64_t, unsigned long>::value && std::is_same<uint8_t, unsigned char>::value, "stub <cstdint> typedefs");\n'
                               'static_assert(char(-1) < 0, "char is signed as in CBMC x86_64");\n')
        self.witnesses.append(core.gxx_syntax(t, [], 'LP64 / <cstdint> stand-in witness', ['-include', 'type_traits']))

    def clause_text(self, o):
        lines = self.clauses.get(o.get('file', ''))
        t = core.nth_clause(lines, o)
        if t:
            return t
        try:
            return lines[int(o['line']) - 1].strip() if lines else None
        except (ValueError, IndexError):
            return None


FN = {  # kind -> (symbol regex builder, contract)
}


def make_build(unit, W, grouped, kind, n0, sgn):
    """Returns build(job, wd) for one instance."""
    p = 'g' if grouped else ''
    T = {8: 'unsigned_char', 16: 'unsigned_short_int', 32: 'unsigned_int', 64: 'unsigned_long_int'}[W]

    def rx_fn(name):
        return r'^celma::format::detail::%s\(' % name

    conv_rx = r'^celma::format::detail::cv_anon::convert\('
    strlen_rx = r'^celma::format::detail::int%d_str_length[(<]' % W
    if grouped:
        U, N, I = 'groupedUint%dtoString' % W, 'groupedInt%dnegToString' % W, 'groupedInt%dtoString' % W
    else:
        U, N, I = 'uint%dtoString' % W, 'int%dnegToString' % W, 'int%dtoString' % W
    buf = r'\(ptr_char,'

    def build(job, wd):
        defs = ['-DN0=%d' % n0, '-DSGN=%d' % sgn, '-DCV_GDEF=%s' % unit.gdef] + (['-DGROUPED'] if grouped else [])
        core.goto_cc(['-nostdinc', '-I', core.STUBS, '-I', unit.shadow.root] + defs +
                     [unit.files[(W, grouped)], '-o', 'cpp.gb'], wd, 'C13 harness TU w%d' % W)
        core.goto_cc(defs + [unit.files[(W, 'c')], '-o', 'c.gb'], wd, 'C13 contracts w%d' % W)
        h = {'strlen': 'h_strlen', 'convert': 'h_convert', 'utos': 'h_utos', 'negtos': 'h_negtos',
             'itos': 'h_itos', 'sutos': 'h_sutos', 'sitos': 'h_sitos', 'dutos': 'h_dutos', 'ditos': 'h_ditos',
             'dsutos': 'h_dsutos', 'dsitos': 'h_dsitos', 'ddef_utos': 'h_ddef_utos', 'ddef_itos': 'h_ddef_itos'}[kind]
        core.goto_cc(['cpp.gb', 'c.gb', '--function', h, '-o', 'l.gb'], wd, 'link')
        syms = core.symbols('l.gb', wd)
        s_conv = core.resolve_symbol(syms, conv_rx)
        s_len = core.resolve_symbol(syms, strlen_rx)
        pc = '' if W == 8 else p
        if kind == 'strlen':
            enf, rep = (s_len, 'strlen_contract'), []
        elif kind == 'convert':
            enf, rep = (s_conv, pc + 'convert_contract'), []
        elif kind == 'utos':
            enf = (core.resolve_symbol(syms, rx_fn(U) + 'ptr_char,'), p + 'utos_contract')
            rep = [(s_conv, pc + 'convert_contract'), (s_len, 'strlen_contract')]
        elif kind == 'negtos':
            enf = (core.resolve_symbol(syms, rx_fn(N) + 'ptr_char,'), p + 'negtos_contract')
            rep = [(s_conv, pc + 'convert_contract'), (s_len, 'strlen_contract')]
        elif kind in ('sutos', 'sitos'):
            enf = ('w_' + kind, p + kind + '_contract')
            rep = [(s_conv, pc + 'convert_contract'), (s_len, 'strlen_contract')]
        elif kind in ('dsutos', 'dsitos'):
            enf = ('w_' + kind, p + kind[1:] + '_contract')
            rep = [(s_conv, pc + 'convert_contract'), (s_len, 'strlen_contract')]
        elif kind in ('ddef_utos', 'ddef_itos'):
            enf = ('w_' + kind, 'g%s_def_contract' % kind[5:])
            rep = [(core.resolve_symbol(syms, rx_fn(U) + 'ptr_char,'), 'gutos_contract'), (core.resolve_symbol(syms, rx_fn(I) + 'ptr_char,'), 'gitos_contract')]
        elif kind in ('dutos', 'ditos'):
            # the overload of int2string( char*, T) selected for the W-bit type; every buffer converter it could forward to is
            # replaced by its contract
            ty = T if kind == 'dutos' else T.replace('unsigned_', 'signed_')
            enf = (core.resolve_symbol(syms, r'^celma::format::%sint2string\(ptr_char,%s[,)]' % ('grouped_' if grouped else '', ty)), p + kind[1:] + '_contract')
            rep = [(core.resolve_symbol(syms, rx_fn(U) + 'ptr_char,'), p + 'utos_contract'),
                   (core.resolve_symbol(syms, rx_fn(I) + 'ptr_char,'), p + 'itos_contract')]
        elif kind == 'itos':
            enf = (core.resolve_symbol(syms, rx_fn(I) + 'ptr_char,'), p + 'itos_contract')
            rep = [(core.resolve_symbol(syms, rx_fn(U) + 'ptr_char,'), p + 'utos_contract'),
                   (core.resolve_symbol(syms, rx_fn(N) + 'ptr_char,'), p + 'negtos_contract')]
        job.function = enf[0]
        job.replaced = [r[0] for r in rep]
        core.dfcc('l.gb', 'i.gb', h, enf, rep, cwd=wd)
        return os.path.join(wd, 'i.gb')

    return build


def make_cover_build(unit, W):
    def build(job, wd):
        core.goto_cc(['-DN0=1', '-DSGN=0', '-DCV_GDEF=%s' % unit.gdef, unit.files[(W, 'c')], '--function', 'h_cover', '-o', 'c.gb'], wd, 'C13 cover w%d' % W)
        return os.path.join(wd, 'c.gb')
    return build


# the std::string variants normally take 15-60 s; under load (other checks in parallel) single 64-bit groups were seen at 300+ s
STR_TO = {'quick': 900, 'thorough': 3000}


def jobs(unit, tier, only=None):
    out = []
    arith = 'z3'
    for W, M in WIDTHS.items():
        for grouped in (False, True):
            p = 'g' if grouped else ''
            tag = 'w%d%s' % (W, '_g' if grouped else '')
            if not grouped:
                out.append(Job('c13_%s_strlen' % tag, 'int%d_str_length' % W, 'strlen_contract',
                               make_build(unit, W, False, 'strlen', 1, 0), backend='sat', timeout=120,
                               instance={'width': W}))
            for n in range(1, M + 1):
                big = (W == 64)
                out.append(Job('c13_%s_convert_n%d' % (tag, n), 'convert(w%d%s)' % (W, ',grouped' if grouped else ''),
                               p + 'convert_contract', make_build(unit, W, grouped, 'convert', n, 0),
                               backend=arith if (W >= 32 and n >= 5) else 'sat',
                               timeout=900, instance={'width': W, 'result_len': n, 'grouped': grouped}))
                if tier == 'thorough' and W >= 32 and n >= 5:
                    # second solver on the arithmetic obligations: both must discharge them
                    out.append(Job('c13_%s_convert_n%d_cvc5' % (tag, n), 'convert(w%d%s)' % (W, ',grouped' if grouped else ''),
                                   p + 'convert_contract', make_build(unit, W, grouped, 'convert', n, 0), backend='cvc5',
                                   timeout=1800, instance={'width': W, 'result_len': n, 'grouped': grouped, 'cross_check': 'cvc5'}))
                out.append(Job('c13_%s_utos_n%d' % (tag, n), 'uintNNtoString(char*,v)', p + 'utos_contract',
                               make_build(unit, W, grouped, 'utos', n, 0), backend='sat',
                               timeout=900, instance={'width': W, 'digits': n, 'grouped': grouped}))
                if n <= NEG_MAXDIG[W]:
                    out.append(Job('c13_%s_negtos_n%d' % (tag, n), 'intNNnegToString(char*,v)', p + 'negtos_contract',
                                   make_build(unit, W, grouped, 'negtos', n, 2), backend='sat',
                                   timeout=900, instance={'width': W, 'digits': n, 'grouped': grouped}))
                    out.append(Job('c13_%s_itos_neg_n%d' % (tag, n), 'intNNtoString(char*,v)', p + 'itos_contract',
                                   make_build(unit, W, grouped, 'itos', n, 2), backend='sat', timeout=900,
                                   instance={'width': W, 'digits': n, 'sign': '-', 'grouped': grouped}))
                if n <= POS_MAXDIG[W]:
                    out.append(Job('c13_%s_itos_pos_n%d' % (tag, n), 'intNNtoString(char*,v)', p + 'itos_contract',
                                   make_build(unit, W, grouped, 'itos', n, 1), backend='sat', timeout=900,
                                   instance={'width': W, 'digits': n, 'sign': '+', 'grouped': grouped}))
            # std::string variants + round trip cost 15-30 s per instance (heap-backed stand-in string under dfcc): the quick
            # tier takes the digit counts where the hand-unrolled code changes shape (1, first grouped length, the longest
            # negative / positive / unsigned texts), the thorough tier every digit count
            sel = set(range(1, M + 1)) if tier == 'thorough' else {1, 4 if grouped else 2, NEG_MAXDIG[W], POS_MAXDIG[W], M}
            for n in sorted(x for x in sel if x <= M):
                inst = {'width': W, 'digits': n, 'grouped': grouped, 'variant': 'std::string'}
                out.append(Job('c13_%s_sutos_n%d' % (tag, n), 'uintNNtoString(v) -> std::string' + ('' if grouped else ' + stringTo<T> round trip'), p + 'sutos_contract',
                               make_build(unit, W, grouped, 'sutos', n, 0), backend='sat', timeout=STR_TO[tier], unwind=max(n + (n - 1) // 3 + 8, M + (M - 1) // 3 + 6), instance=inst))
                if n <= NEG_MAXDIG[W]:
                    out.append(Job('c13_%s_sitos_neg_n%d' % (tag, n), 'intNNtoString(v) -> std::string' + ('' if grouped else ' + stringTo<T> round trip'), p + 'sitos_contract',
                                   make_build(unit, W, grouped, 'sitos', n, 2), backend='sat', timeout=STR_TO[tier], unwind=max(n + (n - 1) // 3 + 8, M + (M - 1) // 3 + 6), instance=dict(inst, sign='-')))
                if n <= POS_MAXDIG[W]:
                    out.append(Job('c13_%s_sitos_pos_n%d' % (tag, n), 'intNNtoString(v) -> std::string' + ('' if grouped else ' + stringTo<T> round trip'), p + 'sitos_contract',
                                   make_build(unit, W, grouped, 'sitos', n, 1), backend='sat', timeout=STR_TO[tier], unwind=max(n + (n - 1) // 3 + 8, M + (M - 1) // 3 + 6), instance=dict(inst, sign='+')))
            out.append(Job('c13_%s_sitos_zero' % tag, 'intNNtoString(v) -> std::string' + ('' if grouped else ' + stringTo<T> round trip'), p + 'sitos_contract',
                           make_build(unit, W, grouped, 'sitos', 1, 0), backend='sat', timeout=120, unwind=M + (M - 1) // 3 + 6, instance={'width': W, 'value': 0, 'grouped': grouped, 'variant': 'std::string'}))
            out.append(Job('c13_%s_itos_zero' % tag, 'intNNtoString(char*,v)', p + 'itos_contract',
                           make_build(unit, W, grouped, 'itos', 1, 0), backend='sat', timeout=120,
                           instance={'width': W, 'value': 0, 'grouped': grouped}))
        for grouped in (False, True):
            p = 'g' if grouped else ''
            tag = 'w%d%s' % (W, '_g' if grouped else '')
            fn = ('grouped_' if grouped else '') + 'int2string'
            # public dispatch headers: buffer overloads for every digit count (no loops: the converters are replaced by their
            # contracts), std::string overloads for the shortest texts
            for n in range(1, M + 1):
                out.append(Job('c13_%s_dutos_n%d' % (tag, n), fn + '(char*, uintNN_t)', p + 'utos_contract', make_build(unit, W, grouped, 'dutos', n, 0),
                               backend='sat', timeout=900, instance={'width': W, 'digits': n, 'grouped': grouped, 'dispatch': True}))
                if n <= NEG_MAXDIG[W]:
                    out.append(Job('c13_%s_ditos_neg_n%d' % (tag, n), fn + '(char*, intNN_t)', p + 'itos_contract', make_build(unit, W, grouped, 'ditos', n, 2),
                                   backend='sat', timeout=900, instance={'width': W, 'digits': n, 'sign': '-', 'grouped': grouped, 'dispatch': True}))
                if n <= POS_MAXDIG[W]:
                    out.append(Job('c13_%s_ditos_pos_n%d' % (tag, n), fn + '(char*, intNN_t)', p + 'itos_contract', make_build(unit, W, grouped, 'ditos', n, 1),
                                   backend='sat', timeout=900, instance={'width': W, 'digits': n, 'sign': '+', 'grouped': grouped, 'dispatch': True}))
            out.append(Job('c13_%s_ditos_zero' % tag, fn + '(char*, intNN_t)', p + 'itos_contract', make_build(unit, W, grouped, 'ditos', 1, 0),
                           backend='sat', timeout=120, instance={'width': W, 'value': 0, 'grouped': grouped, 'dispatch': True}))
            if grouped and M >= 4:
                for n in sorted({4, M}):
                    out.append(Job('c13_%s_ddef_utos_n%d' % (tag, n), fn + '(char*, uintNN_t) with the group character omitted', 'gutos_def_contract', make_build(unit, W, True, 'ddef_utos', n, 0),
                                   backend='sat', timeout=900, instance={'width': W, 'digits': n, 'grouped': True, 'dispatch': True, 'default_group_char': unit.gdef}))
                    if n <= POS_MAXDIG[W]:
                        out.append(Job('c13_%s_ddef_itos_pos_n%d' % (tag, n), fn + '(char*, intNN_t) with the group character omitted', 'gitos_def_contract', make_build(unit, W, True, 'ddef_itos', n, 1),
                                       backend='sat', timeout=900, instance={'width': W, 'digits': n, 'sign': '+', 'grouped': True, 'dispatch': True, 'default_group_char': unit.gdef}))
                    if n <= NEG_MAXDIG[W]:
                        out.append(Job('c13_%s_ddef_itos_neg_n%d' % (tag, n), fn + '(char*, intNN_t) with the group character omitted', 'gitos_def_contract', make_build(unit, W, True, 'ddef_itos', n, 2),
                                       backend='sat', timeout=900, instance={'width': W, 'digits': n, 'sign': '-', 'grouped': True, 'dispatch': True, 'default_group_char': unit.gdef}))
            uw = M + (M - 1) // 3 + 8
            rt = '' if grouped else ' + stringTo<T> round trip'
            for n in ((1, 4) if grouped and M >= 4 else (1, 2)):
                inst = {'width': W, 'digits': n, 'variant': 'std::string', 'grouped': grouped, 'dispatch': True}
                out.append(Job('c13_%s_dsutos_n%d' % (tag, n), fn + '(uintNN_t) -> std::string' + rt, p + 'sutos_contract',
                               make_build(unit, W, grouped, 'dsutos', n, 0), backend='sat', timeout=STR_TO[tier], unwind=uw, instance=inst))
                if n <= NEG_MAXDIG[W]:
                    out.append(Job('c13_%s_dsitos_neg_n%d' % (tag, n), fn + '(intNN_t) -> std::string' + rt, p + 'sitos_contract',
                                   make_build(unit, W, grouped, 'dsitos', n, 2), backend='sat', timeout=STR_TO[tier], unwind=uw, instance=dict(inst, sign='-')))
                if n <= POS_MAXDIG[W]:
                    out.append(Job('c13_%s_dsitos_pos_n%d' % (tag, n), fn + '(intNN_t) -> std::string' + rt, p + 'sitos_contract',
                                   make_build(unit, W, grouped, 'dsitos', n, 1), backend='sat', timeout=STR_TO[tier], unwind=uw, instance=dict(inst, sign='+')))
        out.append(Job('c13_w%d_cover' % W, 'case split of the digit-count instances (w%d)' % W, 'covering assertion',
                       make_cover_build(unit, W), backend='sat', timeout=120, mode='harness',
                       instance={'width': W}))
    if only:
        out = [j for j in out if only in j.name]
    return out


# --------------------------------------------------------------------------------------------
# native replay and evidence

def _num(s):
    import re
    if isinstance(s, int):
        return s
    m = re.match(r'\s*\(?\s*(-?\d+)', str(s))
    return int(m.group(1)) if m else 0


def replay(unit, job, o, inputs, scratch):
    """Run the counterexample against the real code (g++, ASan+UBSan, real /repo/src)."""
    inst = job.instance
    W = inst.get('width')
    grouped = bool(inst.get('grouped'))
    name = job.name
    kind = next((v for k, v in (('ddef_utos', 'ddef_utos'), ('ddef_itos_pos', 'ddef_itos'), ('ddef_itos_neg', 'ddef_itos'), ('dsutos', 'dutos'), ('dsitos', 'ditos'), ('dutos', 'dutos'), ('ditos', 'ditos'), ('sutos', 'utos'), ('sitos', 'itos'),
                                ('strlen', 'strlen'), ('convert', 'convert'), ('utos', 'utos'), ('negtos', 'negtos'), ('itos', 'itos')) if '_' + k + '_' in name + '_'), None)
    if kind is None or W is None:
        return {'outcome': 'unavailable', 'detail': 'no native replay for ' + name}
    n0 = inst.get('result_len') or inst.get('digits') or 1
    if kind in ('negtos', 'itos', 'ditos', 'ddef_itos'):
        val = _num(inputs.get('v', 0))
    elif kind == 'convert':
        val = _num(inputs.get('cv_gv', inputs.get('cvin_g', 0)))
    else:
        val = _num(inputs.get('v', inputs.get('cvin_g', 0)))
    g = _num(inputs.get('g', 39)) if grouped else 39
    r = native_replay(scratch, W, grouped, kind, val, n0, g)
    if r.get('outcome') == 'not-reproduced' and kind in ('dutos', 'ditos'):
        # a dispatch overload that forwards to the wrong converter fails the callee's (instance-split) precondition for every
        # input, so the verifier's counterexample need not be an input with a wrong text: the type's boundary values are tried
        cands = ([0, 1, 2 ** (W - 1) - 1, 2 ** (W - 1), 2 ** W - 1] if kind == 'dutos' else [0, 1, -1, 2 ** (W - 1) - 1, -2 ** (W - 1)])
        for c in cands:
            r2 = native_replay(scratch, W, grouped, kind, c, n0, g)
            if r2.get('outcome') == 'reproduced':
                r2['note'] = 'the verifier\'s counterexample (value %d) does not fail natively; found by trying the boundary values of the type' % val
                return r2
    return r


def native_replay(scratch, W, grouped, kind, val, n0, g):
    src = os.path.join(core.SRC, 'library/format/detail/%sint%d_to_string.cpp' % ('grouped_' if grouped else '', W))
    exe = scratch.path('replay', 'c13_w%d_%d' % (W, int(grouped)))
    if not os.path.exists(exe):
        cmd = ['g++', '-std=c++17', '-g', '-O0', '-fsanitize=address,undefined', '-fno-sanitize-recover=all',
               '-I', core.SRC, '-DCV_W=%d' % W, '-DCV_GROUPED=%d' % int(grouped), '-DCV_SRC="%s"' % src,
               os.path.join(core.VERIF, 'replay', 'c13.cpp'), '-o', exe]
        rc, out, err, s = core.run(cmd, timeout=300, limit=False)
        if rc != 0:
            return {'outcome': 'unavailable', 'detail': 'replay build failed: ' + err[-800:]}
    args = [exe, kind, str(val), str(n0), str(g)]
    rc, out, err, s = core.run(args, timeout=60, limit=False)
    text = (out + err).strip()
    rep = rc != 0 or 'REPRODUCED:' in out and 'NOT-REPRODUCED' not in out
    return {'outcome': 'reproduced' if rep else 'not-reproduced',
            'cmd': 'replay/c13.cpp -DCV_W=%d -DCV_GROUPED=%d: %s' % (W, int(grouped), ' '.join(args[1:])),
            'args': {'W': W, 'grouped': grouped, 'kind': kind, 'value': val, 'n0': n0, 'g': g},
            'output': text[-1500:]}


def evidence_info(unit, tier):
    return {
        'explanation': 'Every buffer variant of the 8 conversion units is enforced against a contract generated from the '
                       'property statement (digit k = floor(v/10^k) mod 10, NDIG by threshold comparison, NUL, sign, group '
                       'character positions), for all values of the type: convert() once per result_len (straight-line), '
                       'intNN_str_length, and the callers once per digit count with callees replaced by their contracts; the '
                       'case split is covered by a separate obligation. The std::string variants run through a copy-out wrapper with the same '
                       'text contract plus the stringTo<T> round trip; the public dispatch overloads int2string / grouped_int2string carry the '
                       'contract of the converter they must forward to (every converter they could call is replaced by its contract). The destination buffer is exactly text+1 bytes, so '
                       '"nothing beyond the NUL" is a memory-safety obligation. No loop, no unwinding bound.',
        'trusted_base': ['CBMC 6.11 C++ front end on the accepted subset (R-AUTO removes the silent auto=int deviation)',
                         'CBMC bit-vector semantics LP64; solvers MiniSat (built in), z3 4.8.12' + (', cvc5 1.0' if tier == 'thorough' else ''),
                         'stand-in headers <cstdint> <cstring> <string> <climits> (stubs/)',
                         'CBMC built-in model of strcpy (used by intNNtoString for value 0)',
                         'extraction rules R-ANON, R-AUTO are semantics-preserving (hit counts checked each run)'],
        'assumptions': ['public dispatch headers int2string.hpp / grouped_int2string.hpp (enable_if overload sets): textually instantiated per (size, signedness) row with the fixed-width type of the row (R-SFINAE, g++-witnessed); other integral types of the same size and signedness select the same row in real C++ and are not separately instantiated',
                        'std::string variants of the dispatch overloads: shortest texts only (the buffer overloads: every digit count)',
                        'GroupedInt<T,S> stream wrapper not under contract',
                        'termination not proved (code is loop-free)',
                        'text-to-value round trip: stringTo<T> is under contract for its type -> std::sto* mapping, std::sto* itself is a ghost-contract stand-in (library code)'],
        'not_under_contract': ['celma::format::GroupedInt<T,S>, groupedInt<T>()', 'std::stoi/stol/stoul/... (library)'],
    }


def replay_record(rec, scratch):
    a = rec.get('native_replay', {}).get('args')
    if not a:
        return {'outcome': 'unavailable', 'detail': 'record carries no replay arguments'}
    return native_replay(scratch, a['W'], a['grouped'], a['kind'], a['value'], a['n0'], a['g'])
