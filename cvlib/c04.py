"""C04 (partial, bounded) -- the raw-memory code reachable from argument evaluation is memory-safe.

Four parts (DESIGN.md section 4, C04):
  1. static scan: where raw memory is handled in the argument-handling sources (supporting fact)
  2. ArgListIterator cursor over argv (textual instantiation of the iterator template), bounded argv
  3. the two program-name copies in Handler (sliced statements), name length unbounded
  4. ArgString2Array construction/destruction (shared unit with C07), bounded string
"""
import os
import re

from . import core, as2a
from .core import Job, Rule, Undecided

NNS3 = [Rule('R-NNS3-open', r'^namespace (\w+)::(\w+)::(\w+) \{', r'namespace \1 { namespace \2 { namespace \3 {', None),
        Rule('R-NNS3-close', r'^\} // namespace \w+::\w+::\w+', '}}}', None)]
COMMON = [Rule('R-ALIAS', r'^(\s*)using (\w+) = ([^;]+);', r'\1typedef \3 \2;', None),
          Rule('R-DEFAULT', r'^[^\n]*= default;\n', '', None), Rule('R-DELETE', r'^[^\n]*= delete;\n', '', None),
          Rule('R-KW-final', r'\bfinal\b', '', None), Rule('R-KW-override', r'\boverride\b', '', None),
          Rule('R-ACCESS', r'^(private|protected):', 'public:', None)]

# the two trivial element accessors return const E* / const E&: the front end loses const on class types -> dropped
ITER_DROPS = [Rule('drop-accessor-decl', r'^   const E[*&] operator (->|\*)\(\) const;\n', '', 2),
              Rule('drop-accessor-def', r'^template< typename T, typename E>\n   const E[*&] ArgListIterator< T, E>::operator (->|\*)\(\) const\n\{.*?^\} // [^\n]*\n', '', 2, flags=re.M | re.S)]

RAW_RX = re.compile(r'\bnew\s+\w[\w:<> ]*\s*\[|\bdelete\s*\[\]|\bmalloc\s*\(|\bfree\s*\(|::(str(cpy|ncpy|cat|len|dup)|mem(cpy|move|set))\s*\(')
EXPECTED_RAW = {'src/celma/prog_args/detail/arg_list_iterator.hpp', 'src/library/prog_args/handler.cpp', 'src/library/appl/arg_string_2_array.cpp'}


def static_scan():
    """Files of the argument-handling code that touch raw memory (new[]/delete[]/malloc/str*/mem*)."""
    hits = {}
    roots = ['src/library/prog_args', 'src/celma/prog_args', 'src/library/appl', 'src/celma/appl']
    for r in roots:
        for dp, dn, fn in os.walk(os.path.join(core.REPO, r)):
            if '/test' in dp:
                continue
            for f in fn:
                if not f.endswith(('.cpp', '.hpp')):
                    continue
                p = os.path.join(dp, f)
                rel = os.path.relpath(p, core.REPO)
                try:
                    for n, line in enumerate(open(p, errors='replace'), 1):
                        if line.lstrip().startswith(('//', '*', '///')):
                            continue
                        if RAW_RX.search(line):
                            hits.setdefault(rel, []).append(n)
                except OSError:
                    pass
    return hits


class Unit(as2a.Unit):
    def __init__(self, scratch):
        as2a.Unit.__init__(self, scratch)
        sh = self.shadow
        self.scan = static_scan()
        self.unexpected_raw = sorted(set(self.scan) - EXPECTED_RAW)
        # ---- ArgListIterator unit
        def pre_it(t):
            t, d = core.nsdmi_to_meminit(t, {'ArgListIterator': r'      mCurrElement\(\)'})
            return t
        sh.extract('celma/prog_args/detail/arg_list_iterator.hpp', NNS3 + ITER_DROPS + [
            Rule('T-INST-tmpl', r'template< typename T, typename E>\s*', '', 11),
            Rule('T-INST-cls', r'ArgListIterator< T, E>', 'ArgListIterator', (20, 50)),
            Rule('drop-base', r'class ArgListIterator:\n   public std::iterator< std::forward_iterator_tag, void\*>', 'class ArgListIterator', 1),
            Rule('T-INST-T', r'\bconst T\b', 'const ArgListParser', (2, 4)),
            Rule('T-INST-E', r'\bE\b', 'ArgListElement', 3),
            Rule('T-INST-rae', r'common::ResetAtExit< bool>', 'common::ResetAtExit', 1),
            Rule('R-AUTO-equalPos', r'const auto   equalPos', 'const size_t   equalPos', 1),
            Rule('R-CONST', r'mpSource\( &src\)', 'mpSource( const_cast< ArgListParser*>( &src))', 1),
            Rule('R-THROW-cut', r'throw argument_error\([^;]*\);', 'CV_THROW_CUT( 1);', 3, flags=re.M | re.S),
            Rule('R-PREPOST-pre', r'\( std::prefix\)', '()', 2), Rule('R-PREPOST-post', r'\( std::postfix\)', '( int)', 2),
            Rule('includes', r'#include "celma/prog_args/argument_error.hpp"\n',
                 '#include "celma/prog_args/detail/arg_list_element.hpp"\n#include "celma/prog_args/detail/arg_list_parser_class.hpp"\n', 1),
            Rule('drop-iterator-include', r'#include <iterator>\n', '', 1),
        ] + COMMON, pre=pre_it)

        def pre_el(t):
            t, d = core.nsdmi_to_meminit(t, {'ArgListElement': None})
            return t
        sh.extract('celma/prog_args/detail/arg_list_element.hpp', COMMON, pre=pre_el)
        sh.extract('celma/prog_args/detail/arg_list_parser.hpp', [
            Rule('split-include', r'#include "celma/prog_args/detail/arg_list_iterator.hpp"\n',
                 'namespace celma { namespace prog_args { namespace detail { class ArgListIterator; }}}\n', 1),
            Rule('T-INST-use', r'ArgListIterator< ArgListParser, ArgListElement>', 'ArgListIterator', 1)] + COMMON,
            out_rel='celma/prog_args/detail/arg_list_parser_class.hpp')
        scratch.write('shadow/celma/prog_args/detail/arg_list_parser.hpp',
                      '#pragma once\n// include re-ordering (T-INST): the parser class must precede the iterator bodies\n'
                      '#include "celma/prog_args/detail/arg_list_parser_class.hpp"\n#include "celma/prog_args/detail/arg_list_iterator.hpp"\n')
        sh.extract('celma/common/reset_at_exit.hpp', [
            Rule('T-INST-tmpl', r'template< typename T>\s*', '', 3), Rule('T-INST-cls', r'ResetAtExit< T>', 'ResetAtExit', (2, 8)),
            Rule('T-INST-T', r'\bT\b', 'bool', (4, 8))] + COMMON)
        scratch.write('shadow/celma/common/pre_postfix.hpp', '#pragma once\nnamespace std { typedef void prefix; typedef int postfix; }\n')

        def pre_ec(e):
            i = e.index('std::ostream& operator <<( std::ostream& os, ArgListElement::Type et)')
            j = e.index('} // namespace detail')
            return e[:i] + e[j:]
        sh.extract('library/prog_args/detail/arg_list_element.cpp', COMMON, pre=pre_ec)
        sh.extract('library/prog_args/detail/arg_list_parser.cpp', COMMON)
        sh.dropped += ['ArgListIterator: std::iterator base clause', 'ArgListIterator::operator-> / operator* (trivial accessors)', 'stream operators of ArgListElement', 'argument_error (throw sites cut the path)']
        # ---- program-name copies: slice the statements from the declaration of `copy` to the strcpy
        src = open(os.path.join(core.SRC, 'library/prog_args/handler.cpp')).read()
        self.slices = re.findall(r'\n([^\n]*\bcopy\b[^\n;]*;\n(?:[ \t]*\n)*[ \t]*::strcpy\( copy(?:\.get\(\))?, arg0\);)', src)
        text = ['// generated: statements sliced out of Handler::readEvalFileArguments / checkReadEnvVarArgs (program-name copy)',
                '#include <cstdint>', '#include <cstring>', '#include <climits>', '#include <memory>']
        for k, sl in enumerate(self.slices):
            text.append('void cv_name_copy_%d( const char* arg0)\n{\n%s\n   cv_use( copy);\n}\n' % (k, sl))
        self.slice_path = scratch.write('gen/name_copies.inc', '\n'.join(text))
        self.h4 = scratch.write('gen/h_c04.cpp', HARNESS_IT)
        self.hn = scratch.write('gen/h_c04_names.cpp', HARNESS_NAMES)


HARNESS_IT = r'''// generated harness: ArgListIterator cursor over an arbitrary argv (bounded)
#include <cstdint>
#include <cstring>
#include <string>
extern "C" { int cv_thrown; }
#define CV_THROW_CUT(k) { cv_thrown = (k); __CPROVER_assume(0); }   /* a throw ends the call: no further access on this path */
#define assert(c) __CPROVER_assert(c, "assert(" #c ")")
#include "celma/prog_args/detail/arg_list_parser.hpp"
#include "library/prog_args/detail/arg_list_element.cpp"
#include "library/prog_args/detail/arg_list_parser.cpp"
using namespace celma::prog_args::detail;
#define CANARY __CPROVER_assert(0, "CV_CANARY")
// a word: separately allocated block of exactly strlen+1 bytes, arbitrary non-NUL bytes (dashes, '=', brackets, '!' included)
static char* word(size_t maxlen) { size_t cvin_seq_len; __CPROVER_assume(cvin_seq_len <= maxlen); char* w = new char[cvin_seq_len + 1];
  for (size_t i = 0; i < WLEN; ++i) if (i < cvin_seq_len) { char cvin_seq_c; __CPROVER_assume(cvin_seq_c != 0); w[i] = cvin_seq_c; } w[cvin_seq_len] = 0; return w; }
// representation invariant of the cursor (every state reachable through the constructor and operator++ satisfies it;
// that it is established and preserved is itself checked below):
//   1 <= word index <= argc + 1, and inside argv (index < argc): the character position is at most the word length,
//   it may equal the length only when the rest of the word is pending as a value, and it is a valid character
//   position whenever the next step will look at the character
#define CUR(it) ((it).mArgIndex >= 1 && (it).mArgIndex <= argc + 1 && \
   ((it).mArgIndex >= argc || ((it).mArgCharPos <= strlen(argv[(it).mArgIndex]) && \
      ((it).mArgCharPos < strlen(argv[(it).mArgIndex]) || (it).mNextIsValue || (it).mArgCharPos == 0))))
#define MKARGV int argc; __CPROVER_assume(1 <= argc && argc <= ARGC); char** argv = new char*[argc + 1]; \
  for (int i = 0; i < ARGC; ++i) if (i < argc) argv[i] = word(i == 0 ? 2 : WLEN); argv[argc] = 0; ArgListParser alp( argc, argv);
extern "C" void h_ctor() { MKARGV
  ArgListIterator it( alp, false);
  __CPROVER_assert(CUR(it), "constructor establishes the cursor invariant");
  ArgListIterator e( alp, true);
  __CPROVER_assert(CUR(e) && e.mArgIndex == argc + 1, "end iterator satisfies the cursor invariant");
  CANARY; }
extern "C" void h_step() { MKARGV
  ArgListIterator it( alp, true);
  // any cursor state satisfying the invariant
  int cvin_idx; size_t cvin_pos, cvin_len; bool cvin_dashed, cvin_nextval, cvin_rem;
  it.mArgIndex = cvin_idx; it.mArgCharPos = cvin_pos; it.mCurrArgStringLen = cvin_len;
  it.mAcceptDashedValue = cvin_dashed; it.mNextIsValue = cvin_nextval; it.mRemainingArgumentStringAsValue = false;
  __CPROVER_assume(CUR(it));
  if (cvin_rem) it.remArgStrAsVal();
  ++it;
  __CPROVER_assert(CUR(it), "operator++ preserves the cursor invariant");
  __CPROVER_assert(!it.mRemainingArgumentStringAsValue, "operator++ resets the one-shot 'remaining string is value' flag");
  bool same = (it == it); __CPROVER_assert(same, "operator== is reflexive");
  CANARY; }
'''

HARNESS_NAMES = r'''// generated harness: the program-name copies of Handler, name length unbounded
#include <cstdint>
extern "C" { size_t cv_arg0_len; const char* cv_arg0; }
// contract of strlen/strcpy for the one string involved (the program name): length is the ghost cv_arg0_len,
// strcpy requires room for length + 1 bytes in the destination
extern "C" size_t strlen(const char* s) { __CPROVER_assert(s == cv_arg0, "harness: strlen only of the program name"); return cv_arg0_len; }
extern "C" char* strcpy(char* d, const char* s) { __CPROVER_assert(s == cv_arg0, "harness: strcpy only from the program name");
  __CPROVER_assert(d != 0 && __CPROVER_OBJECT_SIZE(d) - __CPROVER_POINTER_OFFSET(d) >= cv_arg0_len + 1, "strcpy: destination has room for strlen(program name) + 1 bytes"); return d; }
static void cv_use(const std::unique_ptr< char[]>& p) { }
static void cv_use(const std::unique_ptr< char>& p) { }
static void cv_use(char* p) { }
#include "gen/name_copies.inc"
#define CANARY __CPROVER_assert(0, "CV_CANARY")
extern "C" void h_names() {
  size_t n; __CPROVER_assume(n <= 100000); cv_arg0_len = n; char* a = new char[n + 1]; a[n] = 0; cv_arg0 = a;
  CV_CALLS
  delete[] a; CANARY; }
'''


def make_build_it(unit, argc, wlen, steps):
    def build(job, wd):
        core.goto_cc(['-nostdinc', '-I', core.STUBS, '-I', unit.shadow.root, '-DCV_STRING_INLINE', '-DCV_STR_CAP=%d' % (wlen + 1),
                      '-DARGC=%d' % argc, '-DWLEN=%d' % wlen, '-DSTEPS=%d' % steps, unit.h4, '--function', job.instance['entry'], '-o', 'h.gb'], wd, 'ArgListIterator harness TU')
        return os.path.join(wd, 'h.gb')
    return build


def make_build_names(unit):
    def build(job, wd):
        if not unit.slices:
            raise Undecided('no raw program-name copy found in handler.cpp (slice rule matched nothing)')
        calls = ' '.join('cv_name_copy_%d( a);' % k for k in range(len(unit.slices)))
        core.goto_cc(['-nostdinc', '-I', core.STUBS, '-I', unit.scratch.dir, '-include', 'memory', '-DCV_CALLS=' + calls,
                      unit.hn, '--function', 'h_names', '-o', 'h.gb'], wd, 'program-name copy slices')
        return os.path.join(wd, 'h.gb')
    return build


def jobs(unit, tier, only=None):
    out = []
    slen = 6 if tier == 'quick' else 8
    cap = slen + 2
    for h in ('h_ctor_name', 'h_ctor_line'):
        out.append(Job('c04_as2a_%s' % h[2:], 'ArgString2Array::ArgString2Array / ~ArgString2Array', 'argv well formed, every allocation released (harness)',
                       as2a.make_build(unit, h, ['-DWORDS=1', '-DWLEN=1', '-DQMODES=0', '-DSLEN=%d' % slen, '-DCV_STR_CAP=%d' % cap, '-DCV_VEC_CAP=%d' % (slen // 2 + 2)]),
                       backend='sat', unwind=cap + 4, timeout=900, mode='harness', object_bits=10, instance={'string_length': slen},
                       bounded='argument string <= %d NUL-free bytes' % slen, extra_flags=['--drop-unused-functions', '--memory-leak-check']))
    argc, wlen = (4, 5) if tier == 'quick' else (5, 7)
    for entry, fn in (('h_ctor', 'ArgListIterator::ArgListIterator (establishes the cursor invariant)'),
                      ('h_step', 'ArgListIterator::operator++ / determineNextArg (preserve the cursor invariant)')):
        out.append(Job('c04_iter_%s_argc%d_w%d' % (entry[2:], argc, wlen), fn, 'cursor invariant + memory safety (harness)',
                       make_build_it(unit, argc, wlen, 0), backend='sat', unwind=max(wlen + 3, argc + 2), timeout=1500, mode='harness', object_bits=10,
                       instance={'argc': argc, 'word_length': wlen, 'entry': entry}, bounded='argc <= %d, words <= %d arbitrary non-NUL bytes' % (argc, wlen),
                       extra_flags=['--drop-unused-functions']))
    out.append(Job('c04_name_copies', 'Handler::readEvalFileArguments / checkReadEnvVarArgs: program-name copy (sliced statements)',
                   'strcpy destination holds strlen+1 bytes; array new released by array delete (harness)', make_build_names(unit),
                   backend='sat', unwind=4, timeout=300, mode='harness', instance={'slices': len(unit.slices), 'name_length': 'unbounded (<= 100000)'},
                   extra_flags=['--drop-unused-functions', '--memory-leak-check']))
    if only:
        out = [j for j in out if only in j.name]
    return out


def replay(unit, job, o, inputs, scratch):
    if 'iter' not in job.name:
        return {'outcome': 'unavailable', 'detail': 'no native replay for this C04 unit (counterexample inputs are in this file)'}
    # the counterexample is a cursor STATE; the replay iterates the real iterator over the counterexample's argv from the
    # start with every pattern of remArgStrAsVal() calls: if the state is reachable, ASan sees the same access
    lens = [x for x in inputs.get('cvin_seq_len', []) if isinstance(x, int)]
    chars = [x for x in inputs.get('cvin_seq_c', []) if isinstance(x, int)]
    argc = inputs.get('argc') if isinstance(inputs.get('argc'), int) else len(lens)
    words, k = [], 0
    for ln in lens[:max(1, argc)]:
        ln = max(0, min(ln, 16))
        words.append(''.join('%02x' % (c & 255) for c in chars[k:k + ln]))
        k += ln
    exe = scratch.path('replay', 'c04_iter')
    if not os.path.exists(exe):
        cmd = ['g++', '-std=c++17', '-g', '-O0', '-w', '-fsanitize=address,undefined', '-fno-sanitize-recover=all', '-I', core.SRC,
               os.path.join(core.VERIF, 'replay', 'c04_iter.cpp'), os.path.join(core.SRC, 'library/prog_args/detail/arg_list_parser.cpp'),
               os.path.join(core.SRC, 'library/prog_args/detail/arg_list_element.cpp'), os.path.join(core.SRC, 'library/prog_args/argument_error.cpp'), '-o', exe]
        rc, out, err, s = core.run(cmd, timeout=300, limit=False)
        if rc != 0:
            return {'outcome': 'unavailable', 'detail': 'replay build failed: ' + err[-800:]}
    last = ''
    for pattern in range(64):
        args = [exe, str(pattern)] + ['w=' + w for w in words]
        rc, out, err, s = core.run(args, timeout=30, limit=False, env={'ASAN_OPTIONS': 'detect_leaks=0'})
        last = (out + err).strip()
        if rc != 0:
            return {'outcome': 'reproduced', 'cmd': 'replay/c04_iter.cpp: ' + ' '.join(args[1:]), 'args': {'argv': args[1:]}, 'output': last[-1500:]}
    return {'outcome': 'not-reproduced', 'cmd': 'replay/c04_iter.cpp: patterns 0..63 ' + ' '.join('w=' + w for w in words), 'args': {'argv': ['0'] + ['w=' + w for w in words]},
            'output': last[-600:]}


def evidence_info(unit, tier):
    return {
        'explanation': 'PARTIAL and BOUNDED: decides "no invalid memory access" for the raw-memory code reachable from evalArguments(): the '
                       'ArgListIterator cursor over argv (argc <= 4, every word a separately allocated block of exactly strlen+1 arbitrary non-NUL '
                       'bytes, optional remArgStrAsVal() before every step, iteration to end()), ArgString2Array construction/destruction '
                       '(arbitrary NUL-free string, null or given program name; argv layout asserted, --memory-leak-check), and the two program-name '
                       'copies of Handler (statements sliced out mechanically; name length unbounded; strcpy/strlen bound to their contract). '
                       'Termination and "only std::exception escapes" are not decided; the rest of the handler (boost, iostreams, std::function, '
                       'TypedArg<...>) is outside the front end.',
        'trusted_base': ['CBMC 6.11 C++ front end on the shadow units (T-INST of the iterator template, R-NSDMI, R-CONST, R-THROW-cut ... listed under extraction)',
                         'stand-in <string> (inline flavour), <vector>, <memory> (unique_ptr<char>/<char[]>), <cstring> models of CBMC', 'MiniSat'],
        'assumptions': ['bounded argv / string sizes (see instances)', 'a throw ends the path (no exception object modelled)',
                        'static scan (supporting fact, regex): raw memory handling in the argument-handling sources occurs in ' + ', '.join(sorted(unit.scan)) +
                        (('; NOT under contract: ' + ', '.join(unit.unexpected_raw)) if unit.unexpected_raw else '; all of these are under contract'),
                        'typed destinations (TypedArg<T[N]>, containers) are not under contract'],
        'not_under_contract': list(unit.shadow.dropped) + ['Handler (everything except the two sliced program-name copies)', 'TypedArg<...> destinations'],
        'extra': {'static_scan': {k: v[:20] for k, v in unit.scan.items()}, 'raw_memory_sites_not_under_contract': unit.unexpected_raw,
                  'name_copy_slices': unit.slices},
    }
