"""C04 (partial, bounded) -- the raw-memory code reachable from argument evaluation is memory-safe.

Four parts (DESIGN.md section 4, C04):
  1. static scan: where raw memory is handled in the argument-handling sources (supporting fact)
  2. ArgListIterator cursor over argv (textual instantiation of the iterator template), bounded argv
  3. the two program-name copies in Handler (sliced statements), name length unbounded
  4. ArgString2Array construction/destruction (shared unit with C07), bounded string
"""
import os
import re

from . import core, as2a
from .core import Job, Rule, Undecided

NNS3 = [Rule('R-NNS3-open', r'^namespace (\w+)::(\w+)::(\w+) \{', r'namespace \1 { namespace \2 { namespace \3 {', None),
        Rule('R-NNS3-close', r'^\} // namespace \w+::\w+::\w+', '}}}', None)]
COMMON = [Rule('R-ALIAS', r'^(\s*)using (\w+) = ([^;]+);', r'\1typedef \3 \2;', None),
          Rule('R-DEFAULT', r'^[^\n]*= default;\n', '', None), Rule('R-DELETE', r'^[^\n]*= delete;\n', '', None),
          Rule('R-KW-final', r'\bfinal\b', '', None), Rule('R-KW-override', r'\boverride\b', '', None),
          Rule('R-ACCESS', r'^(private|protected):', 'public:', None)]

# the two trivial element accessors return const E* / const E&: the front end loses const on class types -> dropped
ITER_DROPS = [Rule('drop-accessor-decl', r'^   const E[*&] operator (->|\*)\(\) const;\n', '', 2),
              Rule('drop-accessor-def', r'^template< typename T, typename E>\n   const E[*&] ArgListIterator< T, E>::operator (->|\*)\(\) const\n\{.*?^\} // [^\n]*\n', '', 2, flags=re.M | re.S)]

RAW_RX = re.compile(r'\bnew\s+\w[\w:<> ]*\s*\[|\bdelete\s*\[\]|\bmalloc\s*\(|\bfree\s*\(|::(str(cpy|ncpy|cat|len|dup)|mem(cpy|move|set))\s*\(')
EXPECTED_RAW = {'src/celma/prog_args/detail/arg_list_iterator.hpp', 'src/library/prog_args/handler.cpp', 'src/library/appl/arg_string_2_array.cpp'}


def static_scan():
    """Files of the argument-handling code that touch raw memory (new[]/delete[]/malloc/str*/mem*)."""
    hits = {}
    roots = ['src/library/prog_args', 'src/celma/prog_args', 'src/library/appl', 'src/celma/appl']
    for r in roots:
        for dp, dn, fn in os.walk(os.path.join(core.REPO, r)):
            if '/test' in dp:
                continue
            for f in fn:
                if not f.endswith(('.cpp', '.hpp')):
                    continue
                p = os.path.join(dp, f)
                rel = os.path.relpath(p, core.REPO)
                try:
                    for n, line in enumerate(open(p, errors='replace'), 1):
                        if line.lstrip().startswith(('//', '*', '///')):
                            continue
                        if RAW_RX.search(line):
                            hits.setdefault(rel, []).append(n)
                except OSError:
                    pass
    return hits


class Unit(as2a.Unit):
    def __init__(self, scratch):
        as2a.Unit.__init__(self, scratch)
        sh = self.shadow
        self.scan = static_scan()
        self.unexpected_raw = sorted(set(self.scan) - EXPECTED_RAW)
        # ---- ArgListIterator unit
        def pre_it(t):
            t, d = core.nsdmi_to_meminit(t, {'ArgListIterator': r'      mCurrElement\(\)'})
            return t
        sh.extract('celma/prog_args/detail/arg_list_iterator.hpp', NNS3 + ITER_DROPS + [
            Rule('T-INST-tmpl', r'template< typename T, typename E>\s*', '', 11),
            Rule('T-INST-cls', r'ArgListIterator< T, E>', 'ArgListIterator', (20, 50)),
            Rule('drop-base', r'class ArgListIterator:\n   public std::iterator< std::forward_iterator_tag, void\*>', 'class ArgListIterator', 1),
            Rule('T-INST-T', r'\bconst T\b', 'const ArgListParser', (2, 4)),
            Rule('T-INST-E', r'\bE\b', 'ArgListElement', 3),
            Rule('T-INST-rae', r'common::ResetAtExit< bool>', 'common::ResetAtExit', 1),
            Rule('R-AUTO-equalPos', r'const auto   equalPos', 'const size_t   equalPos', 1),
            Rule('R-CONST', r'mpSource\( &src\)', 'mpSource( const_cast< ArgListParser*>( &src))', 1),
            Rule('R-THROW-cut', r'throw argument_error\([^;]*\);', 'CV_THROW_CUT( 1);', 3, flags=re.M | re.S),
            Rule('R-PREPOST-pre', r'\( std::prefix\)', '()', 2), Rule('R-PREPOST-post', r'\( std::postfix\)', '( int)', 2),
            Rule('includes', r'#include "celma/prog_args/argument_error.hpp"\n',
                 '#include "celma/prog_args/detail/arg_list_element.hpp"\n#include "celma/prog_args/detail/arg_list_parser_class.hpp"\n', 1),
            Rule('drop-iterator-include', r'#include <iterator>\n', '', 1),
        ] + COMMON, pre=pre_it)

        def pre_el(t):
            t, d = core.nsdmi_to_meminit(t, {'ArgListElement': None})
            return t
        sh.extract('celma/prog_args/detail/arg_list_element.hpp', COMMON, pre=pre_el)
        sh.extract('celma/prog_args/detail/arg_list_parser.hpp', [
            Rule('split-include', r'#include "celma/prog_args/detail/arg_list_iterator.hpp"\n',
                 'namespace celma { namespace prog_args { namespace detail { class ArgListIterator; }}}\n', 1),
            Rule('T-INST-use', r'ArgListIterator< ArgListParser, ArgListElement>', 'ArgListIterator', 1)] + COMMON,
            out_rel='celma/prog_args/detail/arg_list_parser_class.hpp')
        scratch.write('shadow/celma/prog_args/detail/arg_list_parser.hpp',
                      '#pragma once\n// include re-ordering (T-INST): the parser class must precede the iterator bodies\n'
                      '#include "celma/prog_args/detail/arg_list_parser_class.hpp"\n#include "celma/prog_args/detail/arg_list_iterator.hpp"\n')
        sh.extract('celma/common/reset_at_exit.hpp', [
            Rule('T-INST-tmpl', r'template< typename T>\s*', '', 3), Rule('T-INST-cls', r'ResetAtExit< T>', 'ResetAtExit', (2, 8)),
            Rule('T-INST-T', r'\bT\b', 'bool', (4, 8))] + COMMON)
        scratch.write('shadow/celma/common/pre_postfix.hpp', '#pragma once\nnamespace std { typedef void prefix; typedef int postfix; }\n')

        def pre_ec(e):
            i = e.index('std::ostream& operator <<( std::ostream& os, ArgListElement::Type et)')
            j = e.index('} // namespace detail')
            return e[:i] + e[j:]
        sh.extract('library/prog_args/detail/arg_list_element.cpp', COMMON, pre=pre_ec)
        sh.extract('library/prog_args/detail/arg_list_parser.cpp', COMMON)
        sh.dropped += ['ArgListIterator: std::iterator base clause', 'ArgListIterator::operator-> / operator* (trivial accessors)', 'stream operators of ArgListElement', 'argument_error (throw sites cut the path)']
        # ---- program-name copies: slice the statements from the declaration of `copy` to the strcpy
        src = open(os.path.join(core.SRC, 'library/prog_args/handler.cpp')).read()
        self.slices = re.findall(r'\n([^\n]*\bcopy\b[^\n;]*;\n(?:[ \t]*\n)*[ \t]*::strn?cpy\( copy(?:\.get\(\))?, arg0(?:,[^;\n]*)?\);)', src)
        text = ['// generated: statements sliced out of Handler::readEvalFileArguments / checkReadEnvVarArgs (program-name copy)',
                '#include <cstdint>', '#include <cstring>', '#include <climits>', '#include <memory>']
        for k, sl in enumerate(self.slices):
            text.append('void cv_name_copy_%d( const char* arg0)\n{\n%s\n   cv_use( copy);\n}\n' % (k, sl))
        self.slice_path = scratch.write('gen/name_copies.inc', '\n'.join(text))
        # ---- fixed-size destinations of typed_arg.hpp: TypedArg< T[ N]>::assign and TypedArg< std::array< T, N>>::assign are
        # sliced out (whole function definitions, by their begin/end markers) and textually instantiated with T := int,
        # N := CV_N as members of an environment class that declares exactly the members they use
        ta = open(os.path.join(core.SRC, 'celma/prog_args/detail/typed_arg.hpp')).read()
        self.assigners = []
        inc = ['// generated: member functions sliced out of celma/prog_args/detail/typed_arg.hpp (T := int, N := CV_N)']
        for kind, spec, env in (('carray', 'T[ N]', 'CV_TA_carray'), ('stdarray', 'std::array< T, N>', 'CV_TA_stdarray'), ('bitset', 'std::bitset< N>', 'CV_TA_bitset'),
                                ('vecbool', 'std::vector< bool>', 'CV_TA_vecbool')):
            tmpl = r'template< size_t N>' if kind == 'bitset' else r'template< typename T, size_t N>'
            if kind == 'vecbool':   # defined inside the class body
                m = re.search(r'   void assign\( const std::string& value, bool\) override\n   \{\n(?:(?!\n   \} // ).)*?\n   \} // TypedArg< std::vector< bool>>::assign\n', ta, flags=re.S)
            else:
                m = re.search(tmpl + r'\n   void TypedArg< %s>::assign\( const std::string& value, bool\)\n\{\n.*?\n\} // TypedArg< %s>::assign\n'
                              % (re.escape(spec), re.escape(spec)), ta, flags=re.S)
            if not m:
                raise Undecided('slice rule: TypedArg< %s>::assign not found in typed_arg.hpp' % spec)
            t = m.group(0)
            if kind == 'vecbool':
                rules = [('T-INST-head', r'   void assign\( const std::string& value, bool\) override', 'void %s::assign( const std::string& value, bool)' % env, 1)]
            else:
                rules = [('T-INST-head', tmpl + r'\n   void TypedArg< %s>::assign\(' % re.escape(spec), 'void %s::assign(' % env, 1),
                         ('T-INST-N', r'\bN\b', 'CV_N', (1, 3))]
            if kind == 'vecbool':
                rules += [('R-BOOLCONV', r'if \(mpCardinality && ', 'if ((mpCardinality.get() != nullptr) && ', 1),
                          ('R-AUTO-init2', r'auto const&  listVal\( \*it\);', 'const std::string  listVal( *it);', 1),
                          ('R-AUTO-init3', r'auto  valCopy\( listVal\);', 'std::string  valCopy( listVal);', 1)]
            elif kind == 'bitset':
                rules += [('R-BOOLCONV', r'if \(mpCardinality && ', 'if ((mpCardinality.get() != nullptr) && ', 1),   # no user-defined conversion operators in the front end
                          ('R-AUTO-init2', r'auto const&  list_val\( \*it\);', 'const std::string  list_val( *it);', 1),
                          ('R-AUTO-init3', r'auto  valCopy\( list_val\);', 'std::string  valCopy( list_val);', 1)]
            else:
                rules += [('T-INST-T', r'boost::lexical_cast< T>', 'boost::lexical_cast< CV_T>', 1),
                          ('R-AUTO-init', r'auto  list_val\( \*it\);', 'std::string  list_val( *it);', 1)]
            rules += [
                     # T-INST-tag: instantiations of a function template that differ only in the return type collide in the front end;
                     # lexical_cast< X>( v) is spelled with a tag argument that carries X
                     ('T-INST-tag', r'boost::lexical_cast< (\w+)>\( ', r'boost::cv_lexical_cast( static_cast< \1*>( 0), ', (1, 2)),
                     # R-INDUCT: the front end rejects loop contracts in C++; the loop is checked by induction instead: the body runs
                     # once from an arbitrary token position and an arbitrary state satisfying the invariant (mIndex <= N, required
                     # and ensured by the harness); `continue` reaches the increment expression and leaves
                     ('R-INDUCT', r'for \(auto it = tok\.begin\(\); it != tok\.end\(\); \+\+it\)', 'for (cv_tok_iterator it = tok.cv_any_position(); cv_once && it != tok.end(); cv_once = false)', 1),
                     # R-ARROW: the front end has no user-defined operator->; for std::unique_ptr p->f() is p.get()->f()
                     ('R-ARROW', r'mpCardinality->gotValue\(\)', 'mpCardinality.get()->gotValue()', 1),
                     ('R-THROW-cut', r'throw std::runtime_error\([^;]*\);', 'CV_THROW_CUT( 1);', 0 if kind == 'vecbool' else 2)]
            fired = {}
            for name, pat, rep, cnt in rules:
                t, n = re.subn(pat, rep, t, flags=re.S)
                fired[name] = n
                if not (n == cnt or (isinstance(cnt, tuple) and cnt[0] <= n <= cnt[1])):
                    raise Undecided('slice rule %s on TypedArg< %s>::assign fired %d times, expected %s' % (name, spec, n, cnt))
            t = re.sub(r'\bauto\s+const(\s+\w+\s*=)', r'const auto\1', t)
            t, n = re.subn(r'((?:const\s+)?)auto(\s+)(\w+)\s*=\s*([^;]+);', core._auto_repl, t)
            fired['R-AUTO(generic)'] = n
            if re.search(r'\bauto\b', re.sub(r'//[^\n]*', '', t)):
                raise Undecided('slice of TypedArg< %s>::assign still contains an `auto` the rules do not cover' % spec)
            if kind == 'vecbool':
                # the growth helper the assigner calls (in-class definition as well): sliced with it
                mh = re.search(r'   size_t grownSize\( size_t pos\) const\n   \{\n(?:(?!\n   \} // ).)*?\n   \} // TypedArg< std::vector< bool>>::grownSize\n', ta, flags=re.S)
                if mh:
                    th, nh = re.subn(r'   size_t grownSize\( size_t pos\) const', 'size_t %s::grownSize( size_t pos) const' % env, mh.group(0))
                    th, nt = re.subn(r'throw std::length_error\([^;]*\);', 'CV_THROW_CUT( 1);', th, flags=re.S)
                    fired['slice-helper grownSize'] = nh
                    fired['R-THROW-cut(helper)'] = nt
                    t = th + '\n' + t
            inc.append(t)
            self.assigners.append({'kind': kind, 'function': 'TypedArg< %s>::assign' % spec, 'rules': fired, 'lines': m.group(0).count('\n')})
            sh.report.append({'file': 'celma/prog_args/detail/typed_arg.hpp [slice TypedArg< %s>::assign]' % spec, 'rules': fired,
                              'diff_lines': sum(fired.values()), 'lines': m.group(0).count('\n')})
            # static fact behind the invariant's base case: mIndex is initialised to 0 and written nowhere but in assign()
            if kind in ('bitset', 'vecbool'):
                continue   # no index state: every position comes from the token itself
            cls = ta[ta.index('class TypedArg< %s>' % spec):m.end()]
            writes = re.findall(r'[^\n]*(?:\+\+\s*mIndex|mIndex\s*(?:\+\+|--|[-+*/]?=(?!=)))[^\n]*', cls)
            init = [w for w in writes if re.search(r'size_t\s+mIndex = 0;', w)]
            other = [w for w in writes if w not in init and 'mDestVar[ mIndex++] = dest_value;' not in w]
            if len(init) != 1 or other:
                raise Undecided('static fact: mIndex of TypedArg< %s> is written outside its initialiser and assign(): %r' % (spec, other[:2]))
        self.assign_path = scratch.write('gen/array_assigners.inc', '\n'.join(inc))
        self.ha = scratch.write('gen/h_c04_assign.cpp', HARNESS_ASSIGN)
        # ---- the complete program-name handling of the two functions (everything between the copy and the call that evaluates
        # the file / the variable): sliced statement blocks, checked in dfcc mode against a FRAME contract (assigns), because the
        # library functions involved return static storage that must not be written (CBMC has no read-only memory; only the frame
        # check sees such a write)
        self.blocks = []
        m0 = re.search(r'void Handler::readEvalFileArguments\( const char\* arg0\)\n\{.*?\n(   std::unique_ptr< char(?:\[\])?>\s+copy\(.*?)\n\s*readArgumentFile\(', src, flags=re.S)
        m1 = re.search(r'void Handler::checkReadEnvVarArgs\( const char\* arg0\)\n\{.*?\n   if \(mEnvVarName\.empty\(\)\)\n   \{\n(.*?)\n   \} // end if', src, flags=re.S)
        for k, m in enumerate((m0, m1)):
            if not m:
                raise Undecided('slice rule: program-name block %d not found in handler.cpp' % k)
            t, n_new = re.subn(r'new char\[ ([^\]]+)\]', r'cv_new_chars( \1)', m.group(1))   # R-NEWARR: array new is unusable under dfcc
            t = re.sub(r'\bauto\s+const(\s+\w+\s*=)', r'const auto\1', t)
            t, n_auto = re.subn(r'((?:const\s+)?)auto(\s+)(\w+)\s*=\s*([^;]+);', core._auto_repl, t)
            if re.search(r'\bauto\b', re.sub(r'//[^\n]*', '', t)):
                raise Undecided('program-name block %d still contains an `auto` the rules do not cover' % k)
            self.blocks.append(t)
            sh.report.append({'file': 'library/prog_args/handler.cpp [program-name block %d]' % k, 'rules': {'R-NEWARR': n_new, 'R-AUTO(generic)': n_auto, 'slice': 1},
                              'diff_lines': n_new + n_auto, 'lines': m.group(1).count('\n') + 1})
        scratch.write('gen/name_blocks.inc',
                      'extern "C" void w_block_0( const char* arg0)\n{\n%s\n}\n'
                      'extern "C" void w_block_1( const char* arg0, void* name_obj)\n{\n   std::string& mEnvVarName = *static_cast< std::string*>( name_obj);\n%s\n}\n' % tuple(self.blocks))
        # ---- one line of an argument file: the body of the reading loop of Handler::readArgumentFile, for an arbitrary line
        mf = re.search(r'void Handler::readArgumentFile\(.*?\n   while \(!std::getline\( progArgs, line\)\.eof\(\)\)\n   \{\n(.*?)\n   \} // end while', src, flags=re.S)
        if not mf:
            raise Undecided('slice rule: reading loop of Handler::readArgumentFile not found in handler.cpp')
        t = re.sub(r'\bauto\s+const(\s+\w+\s*=)', r'const auto\1', mf.group(1))
        t, n_auto = re.subn(r'((?:const\s+)?)auto(\s+)(\w+)\s*=\s*([^;]+);', core._auto_repl, t)
        if re.search(r'\bauto\b', re.sub(r'//[^\n]*', '', t)):
            raise Undecided('file-line block still contains an `auto` the rules do not cover')
        # R-INDUCT: one pass of the loop body for an arbitrary line (`continue` leaves through the increment expression)
        scratch.write('gen/file_line.inc', 'void cv_file_line( std::string& line)\n{\n   for (bool cv_once = true; cv_once; cv_once = false)\n   {\n%s\n   }\n}\n' % t)
        sh.report.append({'file': 'library/prog_args/handler.cpp [readArgumentFile: body of the line loop]', 'rules': {'R-AUTO(generic)': n_auto, 'R-INDUCT': 1, 'slice': 1},
                          'diff_lines': n_auto + 1, 'lines': mf.group(1).count('\n') + 1})
        self.hf = scratch.write('gen/h_c04_file.cpp', HARNESS_FILE)
        self.hb = scratch.write('gen/h_c04_blocks.cpp', HARNESS_BLOCKS_CPP)
        self.cb = scratch.write('gen/c04_blocks.c', HARNESS_BLOCKS_C)
        self.h4 = scratch.write('gen/h_c04.cpp', HARNESS_IT)
        self.hn = scratch.write('gen/h_c04_names.cpp', HARNESS_NAMES)


HARNESS_IT = r'''// generated harness: ArgListIterator cursor over an arbitrary argv (bounded)
#include <cstdint>
#include <cstring>
#include <string>
extern "C" { int cv_thrown; }
#define CV_THROW_CUT(k) { cv_thrown = (k); __CPROVER_assume(0); }   /* a throw ends the call: no further access on this path */
#define assert(c) __CPROVER_assert(c, "assert(" #c ")")
#include "celma/prog_args/detail/arg_list_parser.hpp"
#include "library/prog_args/detail/arg_list_element.cpp"
#include "library/prog_args/detail/arg_list_parser.cpp"
using namespace celma::prog_args::detail;
#define CANARY __CPROVER_assert(0, "CV_CANARY")
// a word: separately allocated block of exactly strlen+1 bytes, arbitrary non-NUL bytes (dashes, '=', brackets, '!' included)
static char* word(size_t maxlen) { size_t cvin_seq_len; __CPROVER_assume(cvin_seq_len <= maxlen); char* w = new char[cvin_seq_len + 1];
  for (size_t i = 0; i < WLEN; ++i) if (i < cvin_seq_len) { char cvin_seq_c; __CPROVER_assume(cvin_seq_c != 0); w[i] = cvin_seq_c; } w[cvin_seq_len] = 0; return w; }
// representation invariant of the cursor (every state reachable through the constructor and operator++ satisfies it;
// that it is established and preserved is itself checked below):
//   1 <= word index <= argc + 1, and inside argv (index < argc): the character position is at most the word length,
//   it may equal the length only when the rest of the word is pending as a value, and it is a valid character
//   position whenever the next step will look at the character
#define CUR(it) ((it).mArgIndex >= 1 && (it).mArgIndex <= argc + 1 && \
   ((it).mArgIndex >= argc || ((it).mArgCharPos <= strlen(argv[(it).mArgIndex]) && \
      ((it).mArgCharPos < strlen(argv[(it).mArgIndex]) || (it).mNextIsValue || (it).mArgCharPos == 0))))
#define MKARGV int argc; __CPROVER_assume(1 <= argc && argc <= ARGC); char** argv = new char*[argc + 1]; \
  for (int i = 0; i < ARGC; ++i) if (i < argc) argv[i] = word(i == 0 ? 2 : WLEN); argv[argc] = 0; ArgListParser alp( argc, argv);
extern "C" void h_ctor() { MKARGV
  ArgListIterator it( alp, false);
  __CPROVER_assert(CUR(it), "constructor establishes the cursor invariant");
  ArgListIterator e( alp, true);
  __CPROVER_assert(CUR(e) && e.mArgIndex == argc + 1, "end iterator satisfies the cursor invariant");
  CANARY; }
extern "C" void h_step() { MKARGV
  ArgListIterator it( alp, true);
  // any cursor state satisfying the invariant
  int cvin_idx; size_t cvin_pos, cvin_len; bool cvin_dashed, cvin_nextval, cvin_rem;
  it.mArgIndex = cvin_idx; it.mArgCharPos = cvin_pos; it.mCurrArgStringLen = cvin_len;
  it.mAcceptDashedValue = cvin_dashed; it.mNextIsValue = cvin_nextval; it.mRemainingArgumentStringAsValue = false;
  __CPROVER_assume(CUR(it));
  if (cvin_rem) it.remArgStrAsVal();
  ++it;
  __CPROVER_assert(CUR(it), "operator++ preserves the cursor invariant");
  __CPROVER_assert(!it.mRemainingArgumentStringAsValue, "operator++ resets the one-shot 'remaining string is value' flag");
  bool same = (it == it); __CPROVER_assert(same, "operator== is reflexive");
  CANARY; }
'''

HARNESS_NAMES = r'''// generated harness: the program-name copies of Handler, name length unbounded
#include <cstdint>
extern "C" { size_t cv_arg0_len; const char* cv_arg0; }
// contract of strlen/strcpy for the one string involved (the program name): length is the ghost cv_arg0_len,
// strcpy requires room for length + 1 bytes in the destination
extern "C" size_t strlen(const char* s) { __CPROVER_assert(s == cv_arg0, "harness: strlen only of the program name"); return cv_arg0_len; }
extern "C" char* strcpy(char* d, const char* s) { __CPROVER_assert(s == cv_arg0, "harness: strcpy only from the program name");
  __CPROVER_assert(d != 0 && __CPROVER_OBJECT_SIZE(d) - __CPROVER_POINTER_OFFSET(d) >= cv_arg0_len + 1, "strcpy: destination has room for strlen(program name) + 1 bytes"); return d; }
// strncpy( d, s, n) writes exactly n bytes; the result is a C string only if strlen( s) < n
extern "C" { bool cv_copy_terminated = true; }
extern "C" char* strncpy(char* d, const char* s, size_t n) { __CPROVER_assert(s == cv_arg0, "harness: strncpy only from the program name");
  __CPROVER_assert(d != 0 && __CPROVER_OBJECT_SIZE(d) - __CPROVER_POINTER_OFFSET(d) >= n, "strncpy: destination has room for the n bytes written");
  cv_copy_terminated = (cv_arg0_len < n); return d; }
// what follows a copy (basename(), std::string assignment, strlen) reads it up to the terminator
#define CV_USED __CPROVER_assert(cv_copy_terminated, "the copy of the program name is a terminated C string where it is used")
static void cv_use(const std::unique_ptr< char[]>& p) { CV_USED; }
static void cv_use(const std::unique_ptr< char>& p) { CV_USED; }
static void cv_use(char* p) { CV_USED; }
#include "gen/name_copies.inc"
#define CANARY __CPROVER_assert(0, "CV_CANARY")
extern "C" void h_names() {
  size_t n; __CPROVER_assume(n <= 100000); cv_arg0_len = n; char* a = new char[n + 1]; a[n] = 0; cv_arg0 = a;
  CV_CALLS
  delete[] a; CANARY; }
'''


HARNESS_ASSIGN = r'''// generated harness: the two fixed-size destination assigners of typed_arg.hpp, checked by induction over the token loop
#include <cstdint>
#include <cstddef>
#include <string>
#define CANARY __CPROVER_assert(0, "CV_CANARY")
#define CV_THROW_CUT(k) __CPROVER_assume(0)   /* an exception derived from std::exception ends the evaluation: allowed outcome */
typedef int CV_T;
static bool cv_nondet_bool() { unsigned char c; return (c & 1) != 0; } static CV_T cv_nondet_val() { CV_T v; return v; } static size_t cv_nondet_size() { size_t n; return n; }
static bool cv_once;
size_t cvin_tok_pos;   // position of the token the checked loop pass starts at (0 = first token of the word)
// ---- environment (ASSUMED contracts, listed as trusted): what the sliced functions call
struct cv_tok_iterator { size_t mPos; bool operator !=( const cv_tok_iterator& o) const { return mPos != o.mPos; }
  std::string operator *() const { std::string s; return s; } };        // a token: some string
namespace celma { namespace common {
struct Tokenizer { size_t mCount;                                         // any number of tokens
  Tokenizer( const std::string&, char) { mCount = cv_nondet_size(); }
  cv_tok_iterator begin() const { cv_tok_iterator i; i.mPos = 0; return i; }
  cv_tok_iterator end() const { cv_tok_iterator i; i.mPos = mCount; return i; }
  cv_tok_iterator cv_any_position() const { cv_tok_iterator i; i.mPos = cvin_tok_pos; __CPROVER_assume(i.mPos <= mCount); return i; } };
template< typename C, typename V> bool contains( const C&, const V&) { return cv_nondet_bool(); }   // reads the container only
}}
namespace boost { template< typename T> T cv_lexical_cast( T*, const std::string&) { if (cv_nondet_bool()) __CPROVER_assume(0); /* bad_lexical_cast */ T cvin_cast_value; return cvin_cast_value; /* any value of the type */ } }
namespace std {
template< typename T, size_t N> struct array { T mE[N]; T& operator[]( size_t i) { return mE[i]; } T* begin() { return mE; } };
// std::vector< bool>: size() <= CV_VCAP in this model (a larger resize is a cut path: growth beyond the model / length_error),
// operator[]( pos) is the unchecked access
#define CV_VCAP 24
template< typename T> class vector;
template<> class vector< bool> { public: size_t mSize; bool mB[CV_VCAP];
  size_t size() const { return mSize; } void clear() { mSize = 0; } size_t max_size() const { return 0x7fffffffffffffc0UL; }
  void resize( size_t n) { if (n > CV_VCAP) __CPROVER_assume(0); for (size_t i = 0; i < CV_VCAP; ++i) if (i >= mSize && i < n) mB[i] = false; mSize = n; }
  // memory level (what C04 is about): libstdc++ stores the bits in 64-bit words, an index behind size() but inside the last word
  // stays inside the allocation (undefined by the standard, invisible to ASan); the obligation is the allocation bound
  bool& operator[]( size_t pos) { __CPROVER_assert(mSize != 0 && pos < ((mSize + 63) / 64) * 64, "std::vector<bool>::operator[]: position inside the allocated words (unchecked access)"); return mB[pos < CV_VCAP ? pos : 0]; } };
// std::bitset< N>::operator[]( pos): undefined behaviour for pos >= N (unchecked access) -- a checked precondition here
template< size_t N> struct bitset { bool mB[N]; bool& operator[]( size_t pos) { __CPROVER_assert(pos < N, "std::bitset::operator[]: pos < N (unchecked access, undefined behaviour otherwise)"); return mB[pos < N ? pos : 0]; }
  void reset() { for (size_t i = 0; i < N; ++i) mB[i] = false; } };
// std::sort( first, last): requires a valid range [first, last) inside one object
inline void sort( CV_T* first, CV_T* last) { const char* f = (const char*)first; const char* l = (const char*)last;
  __CPROVER_assert(__CPROVER_same_object(f, l), "std::sort: first and last point into the same array");
  __CPROVER_assert(__CPROVER_POINTER_OFFSET(f) <= __CPROVER_POINTER_OFFSET(l) && __CPROVER_POINTER_OFFSET(l) <= __CPROVER_OBJECT_SIZE(f), "std::sort: [first, last) is a valid range of the destination array"); }
}
struct cv_Cardinality { void gotValue() { if (cv_nondet_bool()) __CPROVER_assume(0); /* may throw */ } };
struct cv_CardPtr { cv_Cardinality* mP; cv_Cardinality* get() const { return mP; } };
struct cv_Formats { bool empty() const { return cv_nondet_bool(); } };
// the members the sliced functions use, with the types the real classes declare (T := int, N := CV_N); mDestVar is, as in the real
// classes, a reference to the destination, which is an object of its own (a write behind it is outside that object)
#define CV_ENV(name, DEST, DTYPE) struct name { name( DTYPE d): mDestVar( d) { } DEST; size_t mIndex; char mListSep; bool mSortData; bool mUniqueData; bool mTreatDuplicatesAsErrors; \
  std::string mVarName; cv_Formats mFormats; cv_CardPtr mpCardinality; \
  void check( const std::string&) { if (cv_nondet_bool()) __CPROVER_assume(0); } void format( std::string&) { } void format( std::string&, size_t) { } \
  void assign( const std::string& value, bool); };
namespace celma { namespace prog_args { namespace detail {   // the namespace of the sliced functions
typedef CV_T cv_carray_type[CV_N];
typedef std::array< CV_T, CV_N> cv_array_type;
// T (&mDestVar)[N]: the front end cannot initialise a reference-to-array member ("bad array initializer"); a pointer to the first
// element of the separate N-element destination indexes identically
CV_ENV(CV_TA_carray, CV_T* mDestVar, CV_T*)
CV_ENV(CV_TA_stdarray, cv_array_type& mDestVar, cv_array_type&)
typedef std::vector< bool> cv_vecbool_type;
struct CV_TA_vecbool { CV_TA_vecbool( cv_vecbool_type& d): mDestVar( d) { } cv_vecbool_type& mDestVar; char mListSep; bool mClearB4Assign; bool mResetFlags;
  cv_Formats mFormats; cv_CardPtr mpCardinality;
  void check( const std::string&) { if (cv_nondet_bool()) __CPROVER_assume(0); } void format( std::string&) { }
  size_t grownSize( size_t pos) const; std::string mVarName;
  void assign( const std::string& value, bool); };
typedef std::bitset< CV_N> cv_bitset_type;
struct CV_TA_bitset { CV_TA_bitset( cv_bitset_type& d): mDestVar( d) { } cv_bitset_type& mDestVar; char mListSep; bool mClearB4Assign; bool mResetFlags;
  cv_Formats mFormats; cv_CardPtr mpCardinality;
  void check( const std::string&) { if (cv_nondet_bool()) __CPROVER_assume(0); } void format( std::string&) { }
  void assign( const std::string& value, bool); };
#include "gen/array_assigners.inc"
}}}
using namespace celma::prog_args::detail;
#define HARNESS(name, T, DT) extern "C" void name() { DT dest; T a( dest); cv_Cardinality card; a.mpCardinality.mP = cv_nondet_bool() ? &card : (cv_Cardinality*)0; \
  a.mSortData = cv_nondet_bool(); a.mUniqueData = cv_nondet_bool(); a.mTreatDuplicatesAsErrors = cv_nondet_bool(); a.mListSep = ','; \
  cvin_tok_pos = cv_nondet_size(); size_t cvin_index = cv_nondet_size(); __CPROVER_assume(cvin_index <= CV_N);   /* invariant: 0 <= mIndex <= N (mIndex starts at 0, written only by assign) */ \
  a.mIndex = cvin_index; cv_once = true; std::string v; a.assign( v, false); \
  __CPROVER_assert(a.mIndex <= CV_N, "invariant preserved: mIndex <= N after one pass of the token loop"); CANARY; }
extern "C" void h_assign_vecbool() { cv_vecbool_type dest; size_t cvin_size = cv_nondet_size(); __CPROVER_assume(cvin_size <= CV_VCAP); dest.mSize = cvin_size;   // the destination vector the program handed in: any size
  CV_TA_vecbool a( dest); cv_Cardinality card; a.mpCardinality.mP = cv_nondet_bool() ? &card : (cv_Cardinality*)0;
  a.mClearB4Assign = cv_nondet_bool(); a.mResetFlags = cv_nondet_bool(); a.mListSep = ','; cvin_tok_pos = cv_nondet_size(); cv_once = true; std::string v; a.assign( v, false); CANARY; }
extern "C" void h_assign_bitset() { cv_bitset_type dest; CV_TA_bitset a( dest); cv_Cardinality card; a.mpCardinality.mP = cv_nondet_bool() ? &card : (cv_Cardinality*)0;
  a.mClearB4Assign = cv_nondet_bool(); a.mResetFlags = cv_nondet_bool(); a.mListSep = ','; cvin_tok_pos = cv_nondet_size(); cv_once = true; std::string v; a.assign( v, false); CANARY; }
HARNESS(h_assign_carray, CV_TA_carray, cv_carray_type)
HARNESS(h_assign_stdarray, CV_TA_stdarray, cv_array_type)
'''


HARNESS_FILE = r'''// generated harness: one line of an argument file through the body of the reading loop of Handler::readArgumentFile
#include <cstdint>
#include <cstddef>
#include <string>
#define CANARY __CPROVER_assert(0, "CV_CANARY")
using std::string;
// environment (ASSUMED contracts): the line is split and evaluated by code that is under contract elsewhere (ArgString2Array,
// ArgListIterator) or outside the front end (iterateArguments)
namespace celma { namespace appl { struct ArgString2Array { int mArgC; char** mpArgV; };
  inline ArgString2Array make_arg_array( const std::string& line, const char*) { ArgString2Array a; a.mArgC = 0; a.mpArgV = 0; return a; } } }
namespace celma { namespace prog_args { namespace detail { struct ArgListParser { ArgListParser( int, char**) { } }; }
static void iterateArguments( detail::ArgListParser&) { }
#include "gen/file_line.inc"
}}
extern "C" void h_file_line() {
  std::string line; size_t n; __CPROVER_assume(n <= CV_STR_CAP); line.mLen = n;   // any line, also empty / blanks only / comment
  for (size_t i = 0; i < CV_STR_CAP; ++i) { char cvin_seq_c; __CPROVER_assume(cvin_seq_c != 0 && cvin_seq_c != '\n'); line.mData[i] = (i < n) ? cvin_seq_c : 0; } line.mData[CV_STR_CAP] = 0;
  celma::prog_args::cv_file_line( line); CANARY; }
'''

HARNESS_BLOCKS_CPP = r'''// generated: environment of the program-name blocks of Handler (dfcc mode).  Static storage handed out by the C library is
// global and NOT part of the frame: a write through such a pointer fails the assigns clause.
#include <cstdint>
#include <cstddef>
#include <cstring>
#include <climits>
#include <string>
using std::string;
extern "C" { char cv_basename_static[2] = { '.', 0 };       // POSIX basename() may return a pointer to static storage
             char cv_env_value[4] = { '/', 'h', 0, 0 }; }   // getenv() returns a pointer into the environment: not to be modified
static bool cv_nondet_bool() { unsigned char c; return (c & 1) != 0; }
inline char* cv_new_chars( size_t n) { char* p = static_cast< char*>( malloc( n)); __CPROVER_assume(p != 0); return p; }   // operator new[] never returns null
// basename( path) as glibc's __xpg_basename (the one <libgen.h> selects) behaves: may modify the string pointed to by path (trailing
// slashes), returns a pointer into it, or to static storage for a null / empty path.  (POSIX would allow static storage for
// any path; demanding that would flag code that is safe on this platform.)
extern "C" char* basename( char* path) {
  if (path == 0 || path[0] == 0) return cv_basename_static;
  size_t len = strlen( path), k, z; __CPROVER_assume(k <= len && k <= z && z <= len);
  if (cv_nondet_bool()) path[z] = 0;      // e.g. trailing slashes removed
  return path + k; }
extern "C" char* getenv( const char* name) { __CPROVER_assert(name != 0, "getenv: name is a string"); return cv_nondet_bool() ? cv_env_value : (char*)0; }
extern "C" int toupper( int c) { return (c >= 'a' && c <= 'z') ? c - 'a' + 'A' : c; }
namespace boost { inline void to_upper( std::string& s) { for (size_t i = 0; i < CV_STR_CAP; ++i) if (i < s.mLen) s.mData[i] = (char)toupper( (unsigned char)s.mData[i]); } }
namespace std { template< typename T> class unique_ptr;
template<> class unique_ptr< char[]> { public: explicit unique_ptr( char* p): mP( p) { } ~unique_ptr() { free( mP); } char* get() const { return mP; } char* mP; };
template<> class unique_ptr< char> { public: explicit unique_ptr( char* p): mP( p) { } ~unique_ptr() { free( mP); } char* get() const { return mP; } char* mP; }; }
#include "gen/name_blocks.inc"
extern "C" { size_t w_str_size() { return sizeof( std::string); } size_t w_str_len( const void* s) { return static_cast< const std::string*>( s)->mLen; }
  char w_str_at( const void* s, size_t i) { return static_cast< const std::string*>( s)->mData[i]; } }
'''

HARNESS_BLOCKS_C = r'''/* generated: frame contracts for the two program-name blocks (enforced with goto-instrument --dfcc) */
#include <stddef.h>
void w_block_0(const char* arg0); void w_block_1(const char* arg0, void* name_obj);
size_t w_str_size(void); size_t w_str_len(const void*); char w_str_at(const void*, size_t);
extern char cv_basename_static[2]; extern char cv_env_value[4];
/* contract of the C library's static storage (statics are arbitrary in the context of a contract): both hold C strings */
#define STATIC_OK (cv_basename_static[0] != 0 && cv_basename_static[1] == 0 && cv_env_value[3] == 0)
#define NAME_OK(a, n) (STATIC_OK && (n) <= NB && __CPROVER_is_fresh(a, (n) + 1) && (a)[n] == 0 NOZ(a, n))
/* readEvalFileArguments up to the call of readArgumentFile: nothing visible to the caller is written */
void cw_block_0(const char* arg0, size_t n)
__CPROVER_requires(NAME_OK(arg0, n))
__CPROVER_assigns()
{ w_block_0(arg0); }
/* checkReadEnvVarArgs, derivation of the variable name: only the (empty) name string is written; it ends up no longer than the program name */
void cw_block_1(const char* arg0, size_t n, void* name_obj)
__CPROVER_requires(NAME_OK(arg0, n))
__CPROVER_requires(__CPROVER_is_fresh(name_obj, STRSZ) && w_str_len(name_obj) == 0 && w_str_at(name_obj, 0) == 0)
__CPROVER_assigns(__CPROVER_object_whole(name_obj))
__CPROVER_ensures(w_str_len(name_obj) <= (n == 0 ? 1 : n) && w_str_at(name_obj, w_str_len(name_obj)) == 0)
{ w_block_1(arg0, name_obj); }
void h_block_0(void) { const char* arg0; size_t n; __CPROVER_assert(w_str_size() == STRSZ, "layout witness: sizeof(std::string stand-in)"); cw_block_0(arg0, n); __CPROVER_assert(0, "CV_CANARY"); }
void h_block_1(void) { const char* arg0; size_t n; void* name_obj; __CPROVER_assert(w_str_size() == STRSZ, "layout witness: sizeof(std::string stand-in)"); cw_block_1(arg0, n, name_obj); __CPROVER_assert(0, "CV_CANARY"); }
'''


def make_build_file(unit, cap):
    def build(job, wd):
        core.goto_cc(['-nostdinc', '-I', core.STUBS, '-I', unit.scratch.dir, '-DCV_STRING_INLINE', '-DCV_STR_CAP=%d' % cap, unit.hf, '--function', 'h_file_line', '-o', 'h.gb'], wd, 'file-line block')
        return os.path.join(wd, 'h.gb')
    return build


def make_build_block(unit, k, nb, cap):
    def build(job, wd):
        # sizeof of the stand-in string in CBMC's C++ layout, measured by cbmc itself (asserted again in the harness)
        probe = os.path.join(wd, 'sz.cpp')
        open(probe, 'w').write('#include <string>\nint main() { __CPROVER_assert(sizeof(std::string) == CV_SZ, "sz"); }\n')
        strsz = None
        for cand in range(cap + 1 + 8, cap + 1 + 8 + 17):
            core.goto_cc(['-nostdinc', '-I', core.STUBS, '-DCV_STRING_INLINE', '-DCV_STR_CAP=%d' % cap, '-DCV_SZ=%d' % cand, probe, '-o', 'sz.gb'], wd, 'size probe')
            rc, out, err, sec = core.run(['cbmc', 'sz.gb'], cwd=wd, timeout=120)
            if 'VERIFICATION SUCCESSFUL' in out:
                strsz = cand
                break
        if strsz is None:
            raise Undecided('could not determine sizeof(std::string stand-in) in the CBMC layout')
        noz = ''.join(' && (%d >= (n) || (a)[%d] != 0)' % (i, i) for i in range(nb))
        core.goto_cc(['-nostdinc', '-I', core.STUBS, '-I', unit.scratch.dir, '-DCV_STRING_INLINE', '-DCV_STR_CAP=%d' % cap, unit.hb, '-o', 'cpp.gb'], wd, 'program-name blocks TU')
        core.goto_cc(['-DNB=%d' % nb, '-DSTRSZ=%d' % strsz, '-DNOZ(a,n)=' + noz, unit.cb, '-o', 'c.gb'], wd, 'program-name block contracts')
        h = 'h_block_%d' % k
        core.goto_cc(['cpp.gb', 'c.gb', '--function', h, '-o', 'l.gb'], wd, 'link')
        core.dfcc('l.gb', 'i.gb', h, ('cw_block_%d' % k, 'cw_block_%d' % k), [], cwd=wd)
        return os.path.join(wd, 'i.gb')
    return build


def make_build_assign(unit, entry, n):
    def build(job, wd):
        core.goto_cc(['-nostdinc', '-I', core.STUBS, '-I', unit.scratch.dir, '-DCV_STRING_INLINE', '-DCV_STR_CAP=4', '-DCV_N=%d' % n,
                      unit.ha, '--function', entry, '-o', 'h.gb'], wd, 'array assigner slices')
        return os.path.join(wd, 'h.gb')
    return build


def make_build_it(unit, argc, wlen, steps):
    def build(job, wd):
        core.goto_cc(['-nostdinc', '-I', core.STUBS, '-I', unit.shadow.root, '-DCV_STRING_INLINE', '-DCV_STR_CAP=%d' % (wlen + 1),
                      '-DARGC=%d' % argc, '-DWLEN=%d' % wlen, '-DSTEPS=%d' % steps, unit.h4, '--function', job.instance['entry'], '-o', 'h.gb'], wd, 'ArgListIterator harness TU')
        return os.path.join(wd, 'h.gb')
    return build


def make_build_names(unit):
    def build(job, wd):
        if len(unit.slices) != 2:
            raise Undecided('slice rule: %d raw program-name copies recognised in handler.cpp, 2 expected (readEvalFileArguments, checkReadEnvVarArgs)' % len(unit.slices))
        calls = ' '.join('cv_name_copy_%d( a);' % k for k in range(len(unit.slices)))
        core.goto_cc(['-nostdinc', '-I', core.STUBS, '-I', unit.scratch.dir, '-include', 'memory', '-DCV_CALLS=' + calls,
                      unit.hn, '--function', 'h_names', '-o', 'h.gb'], wd, 'program-name copy slices')
        return os.path.join(wd, 'h.gb')
    return build


def jobs(unit, tier, only=None):
    out = []
    slen = 6 if tier == 'quick' else 8
    cap = slen + 2
    for h in ('h_ctor_name', 'h_ctor_line'):
        out.append(Job('c04_as2a_%s' % h[2:], 'ArgString2Array::ArgString2Array / ~ArgString2Array', 'argv well formed, every allocation released (harness)',
                       as2a.make_build(unit, h, ['-DWORDS=1', '-DWLEN=1', '-DQMODES=0', '-DSLEN=%d' % slen, '-DCV_STR_CAP=%d' % cap, '-DCV_VEC_CAP=%d' % (slen // 2 + 2)]),
                       backend='sat', unwind=cap + 4, timeout=900, mode='harness', object_bits=10, instance={'string_length': slen},
                       bounded='argument string <= %d NUL-free bytes' % slen, extra_flags=['--drop-unused-functions', '--memory-leak-check']))
    argc, wlen = (4, 5) if tier == 'quick' else (5, 7)
    for entry, fn in (('h_ctor', 'ArgListIterator::ArgListIterator (establishes the cursor invariant)'),
                      ('h_step', 'ArgListIterator::operator++ / determineNextArg (preserve the cursor invariant)')):
        out.append(Job('c04_iter_%s_argc%d_w%d' % (entry[2:], argc, wlen), fn, 'cursor invariant + memory safety (harness)',
                       make_build_it(unit, argc, wlen, 0), backend='sat', unwind=max(wlen + 3, argc + 2), timeout=1500, mode='harness', object_bits=10,
                       instance={'argc': argc, 'word_length': wlen, 'entry': entry}, bounded='argc <= %d, words <= %d arbitrary non-NUL bytes' % (argc, wlen),
                       extra_flags=['--drop-unused-functions']))
    out.append(Job('c04_name_copies', 'Handler::readEvalFileArguments / checkReadEnvVarArgs: program-name copy (sliced statements)',
                   'strcpy destination holds strlen+1 bytes; array new released by array delete (harness)', make_build_names(unit),
                   backend='sat', unwind=4, timeout=300, mode='harness', instance={'slices': len(unit.slices), 'name_length': 'unbounded (<= 100000)'},
                   extra_flags=['--drop-unused-functions', '--memory-leak-check']))
    nb = 4 if tier == 'quick' else 6
    for k, fn in ((0, 'Handler::readEvalFileArguments: program-name block (copy .. file name built)'), (1, 'Handler::checkReadEnvVarArgs: program-name block (copy .. variable name)')):
        out.append(Job('c04_name_block_%d' % k, fn, 'frame contract: nothing but the block\'s own allocations%s is written' % (' and the name string' if k else ''),
                       make_build_block(unit, k, nb, nb + 20), backend='sat', unwind=nb + 24, timeout=900, instance={'name_length': '<= %d' % nb},
                       bounded='program name <= %d characters' % nb))
    cap = 6 if tier == 'quick' else 10
    out.append(Job('c04_file_line', 'Handler::readArgumentFile: body of the line loop (sliced statements)', 'every access to the line is inside it (std::string::operator[] requires pos <= size()) (harness)',
                   make_build_file(unit, cap), backend='sat', unwind=cap + 3, timeout=300, mode='harness', instance={'line_length': '<= %d' % cap},
                   bounded='line <= %d characters' % cap, extra_flags=['--drop-unused-functions'], need_postcondition=False))
    for a in unit.assigners:
        for n in ((1,) if a['kind'] == 'vecbool' else (1, 3) if tier == 'quick' else (1, 2, 3, 8)):
            out.append(Job('c04_assign_%s_N%d' % (a['kind'], n), a['function'] + ' (sliced function, T := int)',
                           'every write to the fixed-size destination is inside it; index invariant mIndex <= N preserved (induction over the token loop, harness)',
                           make_build_assign(unit, 'h_assign_' + a['kind'], n), backend='sat', unwind=max(6, n + 3, 27 if a['kind'] == 'vecbool' else 0), timeout=300, mode='harness',
                           instance={'N': n, 'tokens': 'unbounded (induction step from an arbitrary token position)'}, extra_flags=['--drop-unused-functions']))
    if only:
        out = [j for j in out if only in j.name]
    return out


def _lib_objects(scratch):
    """objects of the prog_args part of the library (ASan/UBSan), built once per run"""
    import glob
    odir = os.path.dirname(scratch.path('replay', 'c04_objs', '.keep'))
    flags = ['-std=c++17', '-w', '-g', '-O0', '-fsanitize=address,undefined', '-fno-sanitize=vptr', '-fno-sanitize-recover=all', '-I', core.SRC]
    if not glob.glob(os.path.join(odir, '*.o')):
        srcs = (sorted(glob.glob(os.path.join(core.SRC, 'library/prog_args/*.cpp'))) + sorted(glob.glob(os.path.join(core.SRC, 'library/prog_args/detail/*.cpp'))) +
                [os.path.join(core.SRC, 'library/appl/arg_string_2_array.cpp'), os.path.join(core.SRC, 'library/format/text_block.cpp')])
        from concurrent.futures import ThreadPoolExecutor
        def cc(src):
            return core.run(['g++'] + flags + ['-c', src, '-o', os.path.join(odir, os.path.basename(src)[:-4] + '.o')], timeout=600, limit=False)
        with ThreadPoolExecutor(core.NCPU) as ex:
            res = list(ex.map(cc, srcs))
        bad = [r for r in res if r[0] != 0]
        if bad:
            return None, flags, 'replay build failed: ' + bad[0][2][-600:]
    return sorted(glob.glob(os.path.join(odir, '*.o'))), flags, None


def replay_block(job, inputs, scratch):
    """The counterexample fixes the length of the program name; names of that length in a few shapes are tried on the real Handler."""
    objs, flags, err = _lib_objects(scratch)
    if objs is None:
        return {'outcome': 'unavailable', 'detail': err}
    exe = scratch.path('replay', 'c04_names')
    if not os.path.exists(exe):
        rc, out, e, s = core.run(['g++'] + flags + [os.path.join(core.VERIF, 'replay', 'c04_names.cpp')] + objs + ['-o', exe], timeout=600, limit=False)
        if rc != 0:
            return {'outcome': 'unavailable', 'detail': 'replay link failed: ' + e[-600:]}
    n = inputs.get('n') if isinstance(inputs.get('n'), int) else 0
    n = max(0, min(n, 64 if 'name_block' in job.name else 5000))
    mode = '0' if job.name.endswith('_0') else '1'
    modes = [mode] if 'name_block' in job.name else ['0', '1']
    shapes = [''] if n == 0 else ['x' * n, '/' * n, 'x' * (n - 1) + '/', ('./' + 'x' * n)[:n], ('x/' * n)[:n], '.' * n]
    # boundary names as well
    shapes += [x for x in ('', '/', '.', '//') if x not in shapes]
    last = None
    for nm, mode in [(x, m) for x in shapes for m in modes]:
        args = [exe, mode, 'name=' + ''.join('%02x' % ord(c) for c in nm)]
        rc, out, e, s = core.run(args, timeout=60, limit=False, env={'ASAN_OPTIONS': 'detect_leaks=0'})
        last = {'outcome': 'reproduced' if rc != 0 else 'not-reproduced', 'cmd': 'replay/c04_names.cpp: ' + ' '.join(args[1:]), 'args': {'argv': args[1:]},
                'output': (out + e).strip()[-1500:], 'note': 'the counterexample fixes the name length (%d); name shapes of that length and the boundary names "", "/", "." are tried' % n}
        if rc != 0:
            return last
    return last


def replay_assign(job, inputs, scratch):
    """The counterexample is a state (values already stored, position of the token): the real Handler is driven into it with a
    command line and the destination lives in a heap block of exactly N ints."""
    import glob
    n, kind = job.instance['N'], (0 if 'carray' in job.name else (1 if 'stdarray' in job.name else (3 if 'vecbool' in job.name else 2)))
    odir = scratch.path('replay', 'c04_objs', '.keep')
    odir = os.path.dirname(odir)
    flags = ['-std=c++17', '-w', '-g', '-O0', '-fsanitize=address,undefined', '-fno-sanitize=vptr', '-fno-sanitize-recover=all', '-I', core.SRC]
    if not glob.glob(os.path.join(odir, '*.o')):
        srcs = (sorted(glob.glob(os.path.join(core.SRC, 'library/prog_args/*.cpp'))) + sorted(glob.glob(os.path.join(core.SRC, 'library/prog_args/detail/*.cpp'))) +
                [os.path.join(core.SRC, 'library/appl/arg_string_2_array.cpp'), os.path.join(core.SRC, 'library/format/text_block.cpp')])
        from concurrent.futures import ThreadPoolExecutor
        def cc(src):
            return core.run(['g++'] + flags + ['-c', src, '-o', os.path.join(odir, os.path.basename(src)[:-4] + '.o')], timeout=600, limit=False)
        with ThreadPoolExecutor(core.NCPU) as ex:
            res = list(ex.map(cc, srcs))
        bad = [r for r in res if r[0] != 0]
        if bad:
            return {'outcome': 'unavailable', 'detail': 'replay build failed: ' + bad[0][2][-600:]}
    exe = scratch.path('replay', 'c04_assign_%d_%d' % (kind, n))
    if not os.path.exists(exe):
        rc, out, err, s = core.run(['g++'] + flags + ['-D_GLIBCXX_ASSERTIONS', '-DCV_N=%d' % n, '-DCV_KIND=%d' % kind, os.path.join(core.VERIF, 'replay', 'c04_assign.cpp')] +
                                   sorted(glob.glob(os.path.join(odir, '*.o'))) + ['-o', exe], timeout=600, limit=False)
        if rc != 0:
            return {'outcome': 'unavailable', 'detail': 'replay link failed: ' + err[-600:]}
    gi = lambda k: inputs.get(k) if isinstance(inputs.get(k), int) else 0
    args = [exe, str(gi('cvin_index')), '1' if gi('cvin_tok_pos') == 0 else '0', '1' if gi('a.mUniqueData') else '0'] if kind < 2 else ([exe, str(gi('cvin_cast_value'))] if kind == 2 else [exe, str(gi('cvin_size')), str(gi('cvin_cast_value'))])
    rc, out, err, s = core.run(args, timeout=60, limit=False, env={'ASAN_OPTIONS': 'detect_leaks=0'})
    return {'outcome': 'reproduced' if rc != 0 else 'not-reproduced', 'cmd': 'replay/c04_assign.cpp -DCV_N=%d -DCV_KIND=%d: %s' % (n, kind, ' '.join(args[1:])),
            'args': {'argv': args[1:], 'N': n, 'kind': kind}, 'output': (out + err).strip()[-1500:]}


def replay(unit, job, o, inputs, scratch):
    if 'assign' in job.name:
        return replay_assign(job, inputs, scratch)
    if 'name_block' in job.name or job.name == 'c04_name_copies':
        return replay_block(job, inputs, scratch)
    if 'file_line' in job.name:
        objs, flags, err = _lib_objects(scratch)
        if objs is None:
            return {'outcome': 'unavailable', 'detail': err}
        exe = scratch.path('replay', 'c04_file')
        if not os.path.exists(exe):
            rc, out, e, s_ = core.run(['g++'] + flags + [os.path.join(core.VERIF, 'replay', 'c04_file.cpp')] + objs + ['-o', exe], timeout=600, limit=False)
            if rc != 0:
                return {'outcome': 'unavailable', 'detail': 'replay link failed: ' + e[-600:]}
        chars = [x for x in inputs.get('cvin_seq_c', []) if isinstance(x, int)]
        n = inputs.get('n') if isinstance(inputs.get('n'), int) else 0
        args = [exe, 'line=' + ''.join('%02x' % (c & 255) for c in chars[:max(0, min(n, len(chars)))])]
        rc, out, e, s_ = core.run(args, timeout=60, limit=False, env={'ASAN_OPTIONS': 'detect_leaks=0'})
        return {'outcome': 'reproduced' if rc != 0 else 'not-reproduced', 'cmd': 'replay/c04_file.cpp: ' + ' '.join(args[1:]), 'args': {'argv': args[1:]}, 'output': (out + e).strip()[-1500:]}
    if 'as2a' in job.name:
        gi = lambda k, d=0: inputs.get(k) if isinstance(inputs.get(k), int) else d
        chars = [x for x in inputs.get('cvin_seq_c', []) if isinstance(x, int)]
        n = max(0, min(gi('n'), len(chars)))
        a = ['ctor', 'line=' + ''.join('%02x' % (c & 255) for c in chars[:n])]
        if 'name' in job.name and gi('with_name'):
            pc = [x for x in inputs.get('cvin_seq_p', []) if isinstance(x, int)]
            a.append('name=' + ''.join('%02x' % (c & 255) for c in pc[:max(0, min(gi('pl'), len(pc)))]))
        return as2a.native_replay(scratch, a)
    if 'iter' not in job.name:
        return {'outcome': 'unavailable', 'detail': 'no native replay for this C04 unit (counterexample inputs are in this file)'}
    # the counterexample is a cursor STATE; the replay iterates the real iterator over the counterexample's argv from the
    # start with every pattern of remArgStrAsVal() calls: if the state is reachable, ASan sees the same access
    lens = [x for x in inputs.get('cvin_seq_len', []) if isinstance(x, int)]
    chars = [x for x in inputs.get('cvin_seq_c', []) if isinstance(x, int)]
    argc = inputs.get('argc') if isinstance(inputs.get('argc'), int) else len(lens)
    words, k = [], 0
    for ln in lens[:max(1, argc)]:
        ln = max(0, min(ln, 16))
        words.append(''.join('%02x' % (c & 255) for c in chars[k:k + ln]))
        k += ln
    exe = scratch.path('replay', 'c04_iter')
    if not os.path.exists(exe):
        cmd = ['g++', '-std=c++17', '-g', '-O0', '-w', '-fsanitize=address,undefined', '-fno-sanitize-recover=all', '-I', core.SRC,
               os.path.join(core.VERIF, 'replay', 'c04_iter.cpp'), os.path.join(core.SRC, 'library/prog_args/detail/arg_list_parser.cpp'),
               os.path.join(core.SRC, 'library/prog_args/detail/arg_list_element.cpp'), os.path.join(core.SRC, 'library/prog_args/argument_error.cpp'), '-o', exe]
        rc, out, err, s = core.run(cmd, timeout=300, limit=False)
        if rc != 0:
            return {'outcome': 'unavailable', 'detail': 'replay build failed: ' + err[-800:]}
    last = ''
    for pattern in range(64):
        args = [exe, str(pattern)] + ['w=' + w for w in words]
        rc, out, err, s = core.run(args, timeout=30, limit=False, env={'ASAN_OPTIONS': 'detect_leaks=0'})
        last = (out + err).strip()
        if rc != 0:
            return {'outcome': 'reproduced', 'cmd': 'replay/c04_iter.cpp: ' + ' '.join(args[1:]), 'args': {'argv': args[1:]}, 'output': last[-1500:]}
    return {'outcome': 'not-reproduced', 'cmd': 'replay/c04_iter.cpp: patterns 0..63 ' + ' '.join('w=' + w for w in words), 'args': {'argv': ['0'] + ['w=' + w for w in words]},
            'output': last[-600:]}


def evidence_info(unit, tier):
    return {
        'explanation': 'PARTIAL and BOUNDED: decides "no invalid memory access" for the raw-memory code reachable from evalArguments(): the '
                       'ArgListIterator cursor over argv (argc <= 4, every word a separately allocated block of exactly strlen+1 arbitrary non-NUL '
                       'bytes, optional remArgStrAsVal() before every step, iteration to end()), ArgString2Array construction/destruction '
                       '(arbitrary NUL-free string, null or given program name; argv layout asserted, --memory-leak-check), and the two program-name '
                       'copies of Handler (statements sliced out mechanically; name length unbounded; strcpy/strlen bound to their contract), the complete program-name '
                       'handling of both functions (statement blocks up to the call that evaluates the file / the variable) in dfcc mode against a FRAME contract (assigns) - '
                       'CBMC has no read-only memory, only the frame check sees a write into static storage the C library hands out -, and the three '
                       'fixed-size destinations of typed_arg.hpp, TypedArg<T[N]>::assign, TypedArg<std::array<T,N>>::assign, TypedArg<std::bitset<N>>::assign and TypedArg<std::vector<bool>>::assign with its growth helper (whole function '
                       'definitions sliced out, T := int, checked by induction over the token loop from any state with mIndex <= N: unbounded in '
                       'tokens and calls, environment by assumed contracts). '
                       'Termination and "only std::exception escapes" are not decided; the rest of the handler (boost, iostreams, std::function, '
                       'the other TypedArg<...> specialisations) is outside the front end.',
        'trusted_base': ['CBMC 6.11 C++ front end on the shadow units (T-INST of the iterator template, R-NSDMI, R-CONST, R-THROW-cut ... listed under extraction)',
                         'stand-in <string> (inline flavour), <vector>, <memory> (unique_ptr<char>/<char[]>), <cstring> models of CBMC', 'MiniSat',
                         'ASSUMED contracts of the environment of the two sliced assigners: common::Tokenizer yields any number of arbitrary strings; '
                         'boost::lexical_cast<int> returns any value or throws; common::contains only reads; TypedArgBase::check/format do not touch '
                         'mIndex/mDestVar; ICardinality::gotValue may throw; std::sort requires a valid range inside one object; std::bitset<N>::operator[] requires pos < N (unchecked access); '
                         'T (&mDestVar)[N] stands as pointer to a separate N-element array (reference-to-array members cannot be initialised by the front end)',
                         'static fact (regex, every run): mIndex of both classes is initialised to 0 and written only in assign()'],
        'assumptions': ['bounded argv / string sizes (see instances); argc >= 1: the program name is present (evalArguments(0, {nullptr}) is outside the contracts)',
                        'argument-file lines: the body of the line loop of Handler::readArgumentFile for an arbitrary line of <= 6 / 10 characters; splitting and evaluation of the line are assumed (under contract elsewhere / outside the front end)', 'a throw ends the path (no exception object modelled)',
                        'static scan (supporting fact, regex): raw memory handling in the argument-handling sources occurs in ' + ', '.join(sorted(unit.scan)) +
                        (('; NOT under contract: ' + ', '.join(unit.unexpected_raw)) if unit.unexpected_raw else '; all of these are under contract'),
                        'typed destinations other than the two fixed-size arrays, the bitset and vector<bool> (containers, tuple, optional, ValueFilter) are not under contract: they store through library containers or compile-time indices',
                        'program-name blocks: names <= 4 (quick) / 6 (thorough) characters; basename() as the __xpg_basename of glibc (may modify the path, returns a pointer into it, static storage for an empty path) and getenv() by ASSUMED contract; static storage is outside the frame; boost::to_upper upper-cases in place; array new spelled as the allocation function (R-NEWARR, unusable under dfcc otherwise)',
                        'CBMC pointer checks are object-granular: the array destination of the slices is a separate object so that a write behind it is an obligation'],
        'not_under_contract': list(unit.shadow.dropped) + ['Handler (everything except the sliced program-name copies and blocks)', 'TypedArg<...> destinations other than T[N], std::array<T,N>, std::bitset<N> and std::vector<bool>'],
        'extra': {'static_scan': {k: v[:20] for k, v in unit.scan.items()}, 'raw_memory_sites_not_under_contract': unit.unexpected_raw,
                  'name_copy_slices': unit.slices, 'array_assigner_slices': unit.assigners},
    }
