"""C19 -- buffered reading and writing preserve the byte stream (DESIGN.md section 4, C19).

Harness mode (DESIGN 3.3 b): the buffer object owns a second heap object, which is_fresh cannot
describe; the harness builds the object with the real constructor, havocs the cursor fields and
the buffer bytes under the representation invariant, makes ONE call of the real member and asserts
each postcondition clause as a named obligation.  readData/writeData (pure virtual in the source)
are bound to the contract of the environment; its preconditions are obligations at every call.
"""
import os
import re

from . import core
from .core import Job, Rule, Undecided


def nns():
    return [Rule('R-NNS-open', r'^namespace celma::common \{', 'namespace celma { namespace common {', 1),
            Rule('R-NNS-close', r'^\} // namespace celma::common', '}} // namespace celma::common', 1)]


def rules(cls, virt_decl, virt_repl, nns_rules, nthrow):
    return nns_rules + [
        Rule('T-INST-head', r'template< size_t N, typename P = Empty(Read|Write)Policy> class %s: public P' % cls,
             'static const size_t N = CV_N; class %s: public CV_P' % cls, 1),
        Rule('T-INST-tmpl', r'template< size_t N, typename P>\s*', '', (3, 6)),
        Rule('T-INST-qual', r'%s< N, P>::' % cls, '%s::' % cls, (3, 20)),
        Rule('T-INST-member-decl', r'template< typename T> void (get|append)\(', r'typedef unsigned char T; void \1(', 1),
        Rule('T-INST-member-def', r'template< typename T>\s*void %s::(get|append)\(' % cls, r'void %s::\1(' % cls, 1),
        Rule('R-DELETE', r'^[^\n]*= delete;\n', '', 4),
        Rule('R-DEFAULT', r'virtual ~%s\(\) = default;' % cls, 'virtual ~%s() {}' % cls, 1),
        Rule('R-NEWINIT', r'mpBuffer\( new unsigned char\[ N\]\)', 'mpBuffer( cv_new_uchar_array( N))', 1),
        Rule('R-PUREVIRT', virt_decl, virt_repl, 1),
        Rule('R-ACCESS', r'^(private|protected):', 'public:', (2, 6)),
        Rule('R-THROW', r'throw std::runtime_error\( ("[^"]*")\);', r'CV_THROW( \1);', nthrow),
        Rule('T-INST-policy', r'\bP::(bufferRead|sourceRead|appended|flushed)\(', r'CV_P::\1(', (3, 4)),
    ]


class Unit:
    def __init__(self, scratch):
        self.scratch = scratch
        self.shadow = core.Shadow(scratch)
        self.witnesses = []
        def pre_r(t):
            t, d = core.nsdmi_to_meminit(t, {'ReadCountPolicy': None, 'ReadBuffer': r'mpBuffer\( new unsigned char\[ N\]\)'})
            self.nsdmi = dict(d)
            return t

        def pre_w(t):
            t, d = core.nsdmi_to_meminit(t, {'WriteCountPolicy': None, 'WriteBuffer': r'mpBuffer\( new unsigned char\[ N\]\)'})
            self.nsdmi.update(d)
            return t
        self.shadow.extract('celma/common/read_buffer.hpp',
                            rules('ReadBuffer', r'virtual size_t readData\( unsigned char\* data, size_t len\) = 0;',
                                  'size_t readData( unsigned char* data, size_t len);', nns(), 2), pre=pre_r)
        self.shadow.extract('celma/common/write_buffer.hpp',
                            rules('WriteBuffer', r'virtual void writeData\( const unsigned char\* const data, size_t len\) const = 0;',
                                  'void writeData( const unsigned char* const data, size_t len) const;', [], 1), pre=pre_w)
        # supporting g++ witness: the token-rule part of the shadow (everything except T-INST) is not
        # compiled here; the real headers are what the native replay compiles.
        self.hpath = scratch.write('gen/h19.cpp', HARNESS)

    def clause_text(self, o):
        return None


HARNESS = r'''// generated harness for C19 (harness mode): -DCV_N=<buffer size> -DCV_COUNT=<0|1>
#include <cstdint>
#include <cstring>
extern "C" { int cv_thrown; }
#define CV_THROW(msg) { cv_thrown = 1; return; }
#define TOTAL (3 * CV_N + 3)     /* read side: buffered + delivered + slack */
#define WTOTAL (4 * CV_N + 4)    /* write side: sink before (<= N+1) + buffered (<= N) + appended (<= 2N+1) */
#define CANARY __CPROVER_assert(0, "CV_CANARY")
#if CV_COUNT
#define CV_P ReadCountPolicy
#else
#define CV_P EmptyReadPolicy
#endif
#include "celma/common/read_buffer.hpp"
#undef CV_P
#if CV_COUNT
#define CV_P WriteCountPolicy
#else
#define CV_P EmptyWritePolicy
#endif
#include "celma/common/write_buffer.hpp"
using celma::common::ReadBuffer;
using celma::common::WriteBuffer;

// ---- ghost state -------------------------------------------------------------------------
unsigned char* SRC;      // the whole byte stream of the source (arbitrary)
size_t cv_srcpos;        // bytes delivered by the source so far
unsigned char* cv_rbuf;  // base of the read buffer's storage (to state the window precondition)
unsigned char* SNK;      // everything the sink received so far
size_t cv_snkpos;
size_t cv_wcalls;        // writeData calls during the operation

// ---- contract of the environment: the source --------------------------------------------
// requires: 1 <= len and [data, data+len) lies inside the internal buffer (checked at every call)
// delivers 1..len bytes, the next bytes of the stream (a source that delivers nothing forever makes
// fillBuffer spin: termination is not part of C19)
size_t celma::common::ReadBuffer::readData(unsigned char* data, size_t len) {
  __CPROVER_assert(len >= 1, "readData precondition: the buffer never asks for 0 bytes");
  __CPROVER_assert(__CPROVER_same_object(data, cv_rbuf) && __CPROVER_POINTER_OFFSET(data) + len <= CV_N,
                   "readData precondition: offered window [data, data+len) lies inside the internal buffer");
  size_t cvin_seq_r; __CPROVER_assume(1 <= cvin_seq_r && cvin_seq_r <= len && cv_srcpos + cvin_seq_r <= TOTAL);
  for (size_t i = 0; i < CV_N; ++i) if (i < cvin_seq_r) data[i] = SRC[cv_srcpos + i];
  cv_srcpos += cvin_seq_r; return cvin_seq_r; }

// ---- contract of the environment: the sink ----------------------------------------------
void celma::common::WriteBuffer::writeData(const unsigned char* const data, size_t len) const {
  __CPROVER_assert(len >= 1, "writeData precondition: never called with 0 bytes");
  __CPROVER_assert(cv_snkpos + len <= WTOTAL, "harness bound: sink capacity");
  for (size_t i = 0; i < WTOTAL; ++i) if (i < len) SNK[cv_snkpos + i] = data[i];
  cv_snkpos += len; cv_wcalls += 1; }

extern "C" {
// ---- ReadBuffer: constructor establishes the invariant ------------------------------------
void h_rb_ctor() {
  ReadBuffer rb;
  __CPROVER_assert(rb.mDataStart == 0 && rb.mDataEnd == 0, "ctor: empty window (invariant established)");
  __CPROVER_assert(__CPROVER_OBJECT_SIZE(rb.mpBuffer.get()) == CV_N && __CPROVER_POINTER_OFFSET(rb.mpBuffer.get()) == 0, "ctor: internal buffer of N bytes");
  CANARY; }

// ---- ReadBuffer::get ---------------------------------------------------------------------
void h_rb_get() {
  unsigned char cvin_src[TOTAL]; SRC = cvin_src;
  ReadBuffer rb; cv_rbuf = rb.mpBuffer.get();
  // any state satisfying INV_R: window [s,e) mirrors the stream after the bytes consumed so far; stream
  // positions are relative (the code cannot observe them), so "consumed so far" is normalised to 0
  size_t s, e; const size_t consumed = 0; __CPROVER_assume(s <= e && e <= CV_N);
  rb.mDataStart = s; rb.mDataEnd = e; cv_srcpos = consumed + (e - s);
  for (size_t i = 0; i < CV_N; ++i) { unsigned char cvin_junk; rb.mpBuffer[i] = (i >= s && i < e) ? SRC[consumed + (i - s)] : cvin_junk; }
#if CV_COUNT
  const size_t c_nb = 0, c_bb = 0, c_ns = 0, c_bs = 0;   /* the accumulating counters are normalised to 0 at entry */
  rb.mNumBufferReads = c_nb; rb.mBytesBufferedRead = c_bb; rb.mNumSourceReads = c_ns; rb.mBytesSourceRead = c_bs;
#endif
  size_t len; __CPROVER_assume(len <= 2 * CV_N + 1);
  bool cvin_null;  // the caller may pass a null pointer
  // caller memory: len bytes are the caller's, the bytes behind them are guards that must keep their value
  unsigned char out_mem[2 * CV_N + 2]; unsigned char old_mem[2 * CV_N + 2];
  for (size_t i = 0; i < 2 * CV_N + 2; ++i) { unsigned char cvin_g; out_mem[i] = cvin_g; old_mem[i] = cvin_g; }
  unsigned char* out = cvin_null ? (unsigned char*)0 : out_mem;
  size_t srcpos0 = cv_srcpos;
  cv_thrown = 0;
  rb.get(out, len);
  for (size_t i = 0; i < 2 * CV_N + 2; ++i) if (i >= len) __CPROVER_assert(out_mem[i] == old_mem[i], "get writes nothing behind the caller's len bytes");
  if (len == 0) {
    __CPROVER_assert(!cv_thrown && rb.mDataStart == s && rb.mDataEnd == e && cv_srcpos == srcpos0, "get(len 0): nothing happens");
  } else if (cvin_null || len > CV_N) {
    __CPROVER_assert(cv_thrown, "get: null pointer / request larger than the buffer is refused");
    __CPROVER_assert(rb.mDataStart == s && rb.mDataEnd == e && cv_srcpos == srcpos0, "get refused: state unchanged, nothing consumed");
    for (size_t i = 0; i < CV_N; ++i) __CPROVER_assert(out_mem[i] == old_mem[i], "get refused: caller memory untouched");
  } else {
    __CPROVER_assert(!cv_thrown, "get: in-range request is served");
    for (size_t i = 0; i < CV_N; ++i) if (i < len) __CPROVER_assert(out[i] == SRC[consumed + i], "get returns exactly the next bytes of the source, in order");
    __CPROVER_assert(rb.mDataStart <= rb.mDataEnd && rb.mDataEnd <= CV_N, "INV_R: window inside the buffer");
    for (size_t i = 0; i < CV_N; ++i) if (i >= rb.mDataStart && i < rb.mDataEnd)
      __CPROVER_assert(rb.mpBuffer[i] == SRC[consumed + len + (i - rb.mDataStart)], "INV_R: window mirrors the source after the consumed bytes");
    __CPROVER_assert(cv_srcpos == consumed + len + (rb.mDataEnd - rb.mDataStart), "INV_R: no byte lost or duplicated (source position = consumed + buffered)");
#if CV_COUNT
    __CPROVER_assert(rb.numBufferReads() == c_nb + 1 && rb.bytesReadFromBuffer() == c_bb + len, "ReadCountPolicy: buffer read counted once with len bytes");
    __CPROVER_assert(rb.bytesReadFromSource() == c_bs + (cv_srcpos - srcpos0), "ReadCountPolicy: bytes read from source counted");
#endif
  }
  CANARY; }

// ---- WriteBuffer --------------------------------------------------------------------------
void h_wb_ctor() {
  WriteBuffer wb;
  __CPROVER_assert(wb.mWritePos == 0 && wb.buffered() == 0, "ctor: empty buffer (invariant established)");
  __CPROVER_assert(__CPROVER_OBJECT_SIZE(wb.mpBuffer.get()) == CV_N && __CPROVER_POINTER_OFFSET(wb.mpBuffer.get()) == 0, "ctor: internal buffer of N bytes");
  CANARY; }

#define WB_SETUP \
  unsigned char cvin_app[WTOTAL]; unsigned char cvin_snk[WTOTAL]; SNK = cvin_snk; \
  WriteBuffer wb; \
  size_t pos, snk0; __CPROVER_assume(pos <= CV_N && snk0 <= CV_N + 1); \
  /* INV_W: sink ++ buffered == everything appended so far (APP[0 .. snk0+pos)) */ \
  wb.mWritePos = pos; cv_snkpos = snk0; cv_wcalls = 0; \
  for (size_t i = 0; i < WTOTAL; ++i) if (i < snk0) SNK[i] = cvin_app[i]; \
  for (size_t i = 0; i < CV_N; ++i) { unsigned char cvin_junk; wb.mpBuffer[i] = (i < pos) ? cvin_app[snk0 + i] : cvin_junk; }

#define WB_INV(app_len) \
  __CPROVER_assert(wb.mWritePos <= CV_N, "INV_W: write position inside the buffer"); \
  __CPROVER_assert(cv_snkpos + wb.mWritePos == (app_len), "INV_W: sink ++ buffered has the length of everything appended (nothing lost or duplicated)"); \
  for (size_t i = 0; i < WTOTAL; ++i) if (i < cv_snkpos) __CPROVER_assert(SNK[i] == cvin_app[i], "INV_W: the sink holds the appended bytes in order"); \
  for (size_t i = 0; i < CV_N; ++i) if (i < wb.mWritePos) __CPROVER_assert(wb.mpBuffer[i] == cvin_app[cv_snkpos + i], "INV_W: the buffer holds the not yet flushed tail in order");

void h_wb_append() {
  WB_SETUP
#if CV_COUNT
  const size_t c_na = 0, c_ba = 0, c_nf = 0, c_bf = 0;   /* the accumulating counters are normalised to 0 at entry */
  wb.mNumAppendCalled = c_na; wb.mBytesAppended = c_ba; wb.mNumFlushCalled = c_nf; wb.mBytesFlushed = c_bf;
#endif
  size_t len; __CPROVER_assume(len <= 2 * CV_N + 1);
  bool cvin_null;
  unsigned char* data = cvin_null ? (unsigned char*)0 : new unsigned char[len];   // exactly len readable bytes
  if (!cvin_null) for (size_t i = 0; i < 2 * CV_N + 1; ++i) if (i < len) data[i] = cvin_app[snk0 + pos + i];
  cv_thrown = 0;
  wb.append(data, len);
  if (len == 0) {
    __CPROVER_assert(!cv_thrown && wb.mWritePos == pos && cv_snkpos == snk0, "append(len 0): nothing happens");
  } else if (cvin_null) {
    __CPROVER_assert(cv_thrown && wb.mWritePos == pos && cv_snkpos == snk0, "append(null): refused, state unchanged");
  } else {
    __CPROVER_assert(!cv_thrown, "append: served");
    WB_INV(snk0 + pos + len)
    if (len >= CV_N) __CPROVER_assert(wb.mWritePos == 0 && cv_snkpos == snk0 + pos + len, "oversized block: passed through after flushing what was buffered");
    if (len < CV_N && len <= CV_N - pos) __CPROVER_assert(cv_wcalls == 0, "append that fits: no write to the sink");
#if CV_COUNT
    __CPROVER_assert(wb.numAppendCalled() == c_na + 1 && wb.bytesAppended() == c_ba + len, "WriteCountPolicy: append counted");
    __CPROVER_assert(wb.bytesFlushed() == c_bf + (cv_snkpos - snk0) && wb.numFlushCalled() == c_nf + cv_wcalls, "WriteCountPolicy: flushed bytes / calls counted");
#endif
  }
  CANARY; }

void h_wb_flush() {
  WB_SETUP
  wb.flush();
  WB_INV(snk0 + pos)
  __CPROVER_assert(wb.mWritePos == 0 && wb.buffered() == 0, "flush: buffer empty afterwards");
  __CPROVER_assert(cv_snkpos == snk0 + pos, "flush: everything appended has reached the sink");
  __CPROVER_assert(cv_wcalls == (pos > 0 ? 1 : 0), "flush: exactly one write when something was buffered, none otherwise");
  CANARY; }

void h_wb_buffered() {
  WB_SETUP
  size_t r = wb.buffered();
  __CPROVER_assert(r == pos && wb.mWritePos == pos && cv_snkpos == snk0, "buffered(): number of buffered bytes, no side effect");
  CANARY; }
}
'''

HARNESSES = [('h_rb_ctor', 'ReadBuffer<N,P>::ReadBuffer()'), ('h_rb_get', 'ReadBuffer<N,P>::get(data,len) + fillBuffer'),
             ('h_wb_ctor', 'WriteBuffer<N,P>::WriteBuffer()'), ('h_wb_append', 'WriteBuffer<N,P>::append(data,len)'),
             ('h_wb_flush', 'WriteBuffer<N,P>::flush()'), ('h_wb_buffered', 'WriteBuffer<N,P>::buffered()')]


def make_build(unit, N, count, h):
    def build(job, wd):
        core.goto_cc(['-nostdinc', '-I', core.STUBS, '-I', unit.shadow.root, '-DCV_N=%d' % N, '-DCV_COUNT=%d' % count,
                      unit.hpath, '--function', h, '-o', 'h.gb'], wd, 'C19 harness TU N=%d' % N)
        return os.path.join(wd, 'h.gb')
    return build


def instances(tier):
    # N = 16 does not finish in 15 min (get and append); thorough adds more sizes up to 10 instead
    return [1, 2, 3, 8] if tier == "quick" else [1, 2, 3, 4, 5, 6, 8, 10] + ([16] if os.environ.get("CV_C19_16") else [])


def count_max(tier):
    return int(os.environ.get('CV_C19_COUNT_MAX', 8 if tier == 'quick' else 10))


def jobs(unit, tier, only=None):
    out = []
    for N in sorted(set(instances(tier)) | {4}):
        for count in (0, 1):
            # the counting policy adds 64-bit accumulations per loop iteration: MiniSat needs 4-5 min for get() at N = 8, the installed
            # kissat (same CNF, --external-sat-solver) 1 min; the counting instances above N = 4 and everything at N >= 10 go to kissat
            if (count and N > count_max(tier)) or (not count and N not in instances(tier)):
                continue
            for h, fn in HARNESSES:
                heavy = h in ('h_rb_get', 'h_wb_append') and ((count and N > 4) or N >= 10)
                out.append(Job('c19_N%d_%s_%s' % (N, 'count' if count else 'empty', h[2:]), fn, 'INV + postconditions (harness)',
                               make_build(unit, N, count, h), backend='kissat' if heavy else 'sat', unwind=(2 * N + 4) if h.startswith('h_rb') else (4 * N + 6), timeout=900 if tier == 'quick' else 2400, mode='harness',
                               instance={'N': N, 'policy': 'count' if count else 'empty'},
                               extra_flags=['--drop-unused-functions']))
    if only:
        out = [j for j in out if only in j.name]
    return out


def evidence_info(unit, tier):
    return {
        'explanation': 'Harness mode (DESIGN 3.3 b): per buffer size N and policy, each public member of ReadBuffer/WriteBuffer is called once '
                       'from an arbitrary state satisfying the representation invariant (read: the window [start,end) mirrors the source and '
                       'source position = consumed + buffered; write: sink ++ buffered = everything appended); the invariant and the '
                       'per-call postconditions are asserted as named obligations, the preconditions of the environment hooks '
                       '(readData: >=1 byte, window inside the buffer; writeData: >=1 byte) are obligations at every call. Because every '
                       'public call preserves the invariant from ANY state satisfying it and the constructors establish it, all histories '
                       'of request sizes and source chunkings are covered. fillBuffer loop unwound N+1 times with unwinding assertions '
                       '(complete per instance). No assigns-frame check in this mode: replaced by explicit clauses (guard byte behind the '
                       'caller memory, exactly-sized heap blocks, sink/source comparisons).',
        'trusted_base': ['CBMC 6.11 C++ front end on the shadow headers (textual instantiation T-INST of the two class templates, rules listed under extraction)',
                         'stand-in <memory> (unique_ptr<unsigned char[]>), <cstring>, <stdexcept>, <cassert>',
                         'contract of the environment: readData delivers 1..len bytes (a source delivering 0 forever is excluded; termination not claimed); writeData consumes all bytes',
                         'CBMC built-in memcpy/memmove models; MiniSat, and kissat (--external-sat-solver, same CNF) for the groups listed with backend kissat'],
        'assumptions': ['per-instance proof: N in %s (counting policy: N <= %d), not for all N' % (instances(tier), count_max(tier)), 'request lengths 0 .. 2N+1, null data pointer included',
                        'ghost bounds: consumed <= N, sink length before the call <= N+1 (the code never reads them)',
                        'member template parameter T bound to unsigned char (T only types the pointer passed to memcpy)',
                        'harness-mode __CPROVER_assume statements are exactly the representation invariant and the environment contract'],
        'not_under_contract': ['policy classes are exercised through the buffer members only'],
    }


def native_replay(scratch, N, count, args):
    exe = scratch.path('replay', 'c19_N%d_%d' % (N, count))
    if not os.path.exists(exe):
        cmd = ['g++', '-std=c++17', '-g', '-O0', '-w', '-fsanitize=address,undefined', '-fno-sanitize-recover=all', '-fno-access-control',
               '-I', core.SRC, '-DCV_N=%d' % N, '-DCV_COUNT=%d' % count, os.path.join(core.VERIF, 'replay', 'c19.cpp'), '-o', exe]
        rc, out, err, s = core.run(cmd, timeout=300, limit=False)
        if rc != 0:
            return {'outcome': 'unavailable', 'detail': 'replay build failed: ' + err[-800:]}
    rc, out, err, s = core.run([exe] + args, timeout=60, limit=False, env={'ASAN_OPTIONS': 'detect_leaks=0'})
    return {'outcome': 'reproduced' if rc != 0 else 'not-reproduced',
            'cmd': 'replay/c19.cpp -DCV_N=%d -DCV_COUNT=%d: %s' % (N, count, ' '.join(args)),
            'args': {'N': N, 'count': count, 'argv': args}, 'output': (out + err).strip()[-1500:]}


def replay(unit, job, o, inputs, scratch):
    N = job.instance['N']
    count = 1 if job.instance['policy'] == 'count' else 0
    kind = job.name.split('_', 3)[3]

    def gi(k):
        v = inputs.get(k, 0)
        return v if isinstance(v, int) else (1 if str(v).lower() in ('true', '1') else 0)
    a = [kind]
    if kind == 'rb_get':
        a += ['s=%d' % gi('s'), 'e=%d' % gi('e'), 'len=%d' % gi('len'), 'null=%d' % gi('cvin_null'),
              'chunks=' + ','.join(str(x) for x in inputs.get('cvin_seq_r', []) if isinstance(x, int))]
    elif kind.startswith('wb_'):
        a += ['pos=%d' % gi('pos'), 'snk0=%d' % gi('snk0'), 'len=%d' % gi('len'), 'null=%d' % gi('cvin_null')]
    return native_replay(scratch, N, count, a)


def replay_record(rec, scratch):
    a = rec.get('native_replay', {}).get('args')
    if not a:
        return {'outcome': 'unavailable', 'detail': 'record carries no replay arguments'}
    return native_replay(scratch, a['N'], a['count'], a['argv'])
