"""Observers of FixedString<L> (C10: safety + unchanged content; C11: result equals std::string's).

C11 specs are finite expansions over positions 0..L / 0..K-1, written from the C++ standard's
description of basic_string (see DESIGN.md appendix B), in terms of the ghost view
(g_len, g0..) of the object and (str_n, str_0..) of the argument.
"""
from .fs import M, OBSERVERS, METHODS, MIN

Z, C, S, B, SS, F, D = 'z', 'c', 's', 'b', 'S', 'F', 'd'
NPOS = '18446744073709551615ul'


def chain_first(conds, vals, default):
    s = default
    for c, v in reversed(list(zip(conds, vals))):
        s = '((%s) ? (%s) : %s)' % (c, v, s)
    return s


def match_at(i, mlen, src, W):
    return '(' + ' && '.join('(%d >= (%s) || OLD((%s)+%d) == SRC(%s,%d))' % (j, mlen, i, j, src, j) for j in range(W)) + ')'


def inset(c, mlen, src, W):
    return '(' + ' || '.join('(%d < (%s) && SRC(%s,%d) == (%s))' % (j, mlen, src, j, c) for j in range(W)) + ')'


def sp_find(mlen, src, rev, width=None):
    def f(L, K):
        W = width(L, K) if width else K
        if rev:
            conds = ['%d <= pos && %d + (%s) <= g_len && %s' % (i, i, mlen, match_at(str(i), mlen, src, W)) for i in range(L, -1, -1)]
            vals = [str(i) + 'ul' for i in range(L, -1, -1)]
        else:
            conds = ['%d >= pos && %d + (%s) <= g_len && %s' % (i, i, mlen, match_at(str(i), mlen, src, W)) for i in range(L + 1)]
            vals = [str(i) + 'ul' for i in range(L + 1)]
        return dict(dom='1', result=['R == ' + chain_first(conds, vals, NPOS)])
    return f


def sp_find_c(rev):
    def f(L, K):
        rng = range(L - 1, -1, -1) if rev else range(L)
        conds = ['%d %s pos && %d < g_len && OLD(%d) == ch' % (i, '<=' if rev else '>=', i, i) for i in rng]
        return dict(dom='1', result=['R == ' + chain_first(conds, ['%dul' % i for i in rng], NPOS)])
    return f


def sp_of(mlen, src, rev, neg, width=None, char=False):
    def f(L, K):
        W = width(L, K) if width else K
        rng = range(L - 1, -1, -1) if rev else range(L)
        def member(i):
            e = ('(OLD(%d) == ch)' % i) if char else inset('OLD(%d)' % i, mlen, src, W)
            return ('!' + e) if neg else e
        conds = ['%d %s pos && %d < g_len && %s' % (i, '<=' if rev else '>=', i, member(i)) for i in rng]
        return dict(dom='1', result=['R == ' + chain_first(conds, ['%dul' % i for i in rng], NPOS)])
    return f


def sp_cmp(p1, n1, p2, n2, src, dom='1'):
    """sign of the lexicographic comparison OLD[p1, p1+n1) <=> SRC[p2, p2+n2) (unsigned char order)."""
    def f(L, K):
        T = min(L, K)
        conds, vals = [], []
        for t in range(T):
            a, b = 'OLD((%s)+%d)' % (p1, t), 'SRC(%s,(%s)+%d)' % (src, p2, t)
            conds.append('%d < N1 && %d < N2 && %s != %s' % (t, t, a, b))
            vals.append('((unsigned char)%s < (unsigned char)%s ? -1 : 1)' % (a, b))
        e = chain_first(conds, vals, '(N1 < N2 ? -1 : (N1 > N2 ? 1 : 0))')
        return dict(dom=dom, result=['#define N1 (%s)\n#define N2 (%s)\n__CPROVER_ensures((R > 0) - (R < 0) == %s)\n#undef N1\n#undef N2\n//' % (n1, n2, e)])
    return f


def full(src):
    return ('0', 'g_len', '0', src + '_n')


def sub1(src):
    return ('pos1', MIN('count1', 'g_len - pos1'), '0', src + '_n')


def sp_bool(expr_fn):
    def f(L, K):
        return dict(dom='1', result=['(R != 0) == (%s)' % expr_fn(L, K)])
    return f


def e_starts(L, K):
    return 'str_n <= g_len && ' + match_at('0', 'str_n', 'str', K)


def e_ends(L, K):
    return 'str_n <= g_len && ' + match_at('g_len - str_n', 'str_n', 'str', K)


def e_contains(L, K):
    return '(' + ' || '.join('(%d + str_n <= g_len && %s)' % (i, match_at(str(i), 'str_n', 'str', K)) for i in range(L + 1)) + ')'


def e_contains_c(L, K):
    return '(' + ' || '.join('(%d < g_len && OLD(%d) == ch)' % (i, i) for i in range(L)) + ')'


OBS = [
    M('compare_S', 'compare( str)', 'i', [(SS, 'str')], False, spec=sp_cmp(*full('str'), 'str')),
    M('compare_s', 'compare( str)', 'i', [(S, 'str')], False, spec=sp_cmp(*full('str'), 'str')),
    M('compare_pcS', 'compare( pos1, count1, str)', 'i', [(Z, 'pos1'), (Z, 'count1'), (SS, 'str')], False,
      spec=sp_cmp(*sub1('str'), 'str', dom='pos1 <= g_len')),
    M('compare_pcs', 'compare( pos1, count1, str)', 'i', [(Z, 'pos1'), (Z, 'count1'), (S, 'str')], False,
      spec=sp_cmp(*sub1('str'), 'str', dom='pos1 <= g_len')),
    M('compare_pcSpc', 'compare( pos1, count1, str, pos2, count2)', 'i',
      [(Z, 'pos1'), (Z, 'count1'), (SS, 'str'), (Z, 'pos2'), (Z, 'count2')], False,
      spec=sp_cmp('pos1', MIN('count1', 'g_len - pos1'), 'pos2', MIN('count2', 'str_n - pos2'), 'str', dom='pos1 <= g_len && pos2 <= str_n')),
    M('compare_pcsn', 'compare( pos1, count1, str, count2)', 'i', [(Z, 'pos1'), (Z, 'count1'), (S, 'str'), (Z, 'count2')], False,
      spec=sp_cmp('pos1', MIN('count1', 'g_len - pos1'), '0', 'count2', 'str', dom='pos1 <= g_len && count2 <= str_n')),
    M('starts_with_S', 'starts_with( str)', 'B', [(SS, 'str')], False, spec=sp_bool(e_starts)),
    M('starts_with_s', 'starts_with( str)', 'B', [(S, 'str')], False, spec=sp_bool(e_starts)),
    M('starts_with_c', 'starts_with( ch)', 'B', [(C, 'ch')], False, spec=sp_bool(lambda L, K: 'g_len > 0 && g0 == ch')),
    M('ends_with_S', 'ends_with( str)', 'B', [(SS, 'str')], False, spec=sp_bool(e_ends)),
    M('ends_with_s', 'ends_with( str)', 'B', [(S, 'str')], False, spec=sp_bool(e_ends)),
    M('ends_with_c', 'ends_with( ch)', 'B', [(C, 'ch')], False, spec=sp_bool(lambda L, K: 'g_len > 0 && OLD(g_len - 1) == ch')),
    M('contains_S', 'contains( str)', 'B', [(SS, 'str')], False, spec=sp_bool(e_contains)),
    M('contains_s', 'contains( str)', 'B', [(S, 'str')], False, spec=sp_bool(e_contains)),
    M('contains_c', 'contains( ch)', 'B', [(C, 'ch')], False, spec=sp_bool(e_contains_c)),
    M('copy', 'copy( dest, count, pos)', 'z', [(D, 'dest'), (Z, 'count'), (Z, 'pos')], False,
      blen='(pos <= g_len ? ' + MIN('count', 'g_len - pos') + ' : 0)',
      spec=lambda L, K: dict(dom='pos <= g_len', result=['R == ' + MIN('count', 'g_len - pos')] +
                             ['(%d >= R || dest[%d] == OLD(pos + %d))' % (j, j, j) for j in range(L)])),
    M('swap', 'swap( other)', 'v', [(F, 'other')], True,
      spec=lambda L, K: dict(dom='1', newlen='other_n', expect='SRC(other,k)',
                             extra=['w_length(other) == g_len'] + ['(%d >= g_len || w_char_at(other,%d) == g%d)' % (j, j, j) for j in range(L)] + ['WF(other)'])),
    M('find_F', 'find( other, pos)', 'z', [(F, 'other'), (Z, 'pos')], False, spec=sp_find('other_n', 'other', False, lambda L, K: L)),
    M('find_S', 'find( str, pos)', 'z', [(SS, 'str'), (Z, 'pos')], False, spec=sp_find('str_n', 'str', False)),
    M('find_spn', 'find( str, pos, count)', 'z', [(B, 'str'), (Z, 'pos'), (Z, 'count')], False, blen='count', spec=sp_find('count', 'str', False)),
    M('find_sp', 'find( str, pos)', 'z', [(S, 'str'), (Z, 'pos')], False, spec=sp_find('str_n', 'str', False)),
    M('find_c', 'find( ch, pos)', 'z', [(C, 'ch'), (Z, 'pos')], False, spec=sp_find_c(False)),
    M('rfind_F', 'rfind( other, pos)', 'z', [(F, 'other'), (Z, 'pos')], False, spec=sp_find('other_n', 'other', True, lambda L, K: L)),
    M('rfind_S', 'rfind( str, pos)', 'z', [(SS, 'str'), (Z, 'pos')], False, spec=sp_find('str_n', 'str', True)),
    M('rfind_spn', 'rfind( str, pos, count)', 'z', [(S, 'str'), (Z, 'pos'), (Z, 'count')], False,
      spec=lambda L, K: dict(sp_find('count', 'str', True)(L, K), dom='count <= str_n')),
    M('rfind_sp', 'rfind( str, pos)', 'z', [(S, 'str'), (Z, 'pos')], False, spec=sp_find('str_n', 'str', True)),
    M('rfind_c', 'rfind( ch, pos)', 'z', [(C, 'ch'), (Z, 'pos')], False, spec=sp_find_c(True)),
]
for fam, rev, neg in (('find_first_of', False, False), ('find_first_not_of', False, True),
                      ('find_last_of', True, False), ('find_last_not_of', True, True)):
    OBS += [
        M(fam + '_F', fam + '( other, pos)', 'z', [(F, 'other'), (Z, 'pos')], False, spec=sp_of('other_n', 'other', rev, neg, lambda L, K: L)),
        M(fam + '_S', fam + '( str, pos)', 'z', [(SS, 'str'), (Z, 'pos')], False, spec=sp_of('str_n', 'str', rev, neg)),
        M(fam + '_spn', fam + '( str, pos, count)', 'z', [(B, 'str'), (Z, 'pos'), (Z, 'count')], False, blen='count',
          spec=sp_of('count', 'str', rev, neg)),
        M(fam + '_sp', fam + '( str, pos)', 'z', [(S, 'str'), (Z, 'pos')], False, spec=sp_of('str_n', 'str', rev, neg)),
        M(fam + '_c', fam + '( ch, pos)', 'z', [(C, 'ch'), (Z, 'pos')], False, spec=sp_of(None, None, rev, neg, char=True)),
    ]
OBS += [
    M('index', 'operator []( idx)', 'c', [(Z, 'idx')], False, dom10='idx <= g_len',
      spec=lambda L, K: dict(dom='idx <= g_len', result=['R == (idx < g_len ? OLD(idx) : 0)'])),
    M('front', 'front()', 'c', [], False, spec=lambda L, K: dict(dom='g_len > 0', result=['R == g0'])),
    M('back', 'back()', 'c', [], False, spec=lambda L, K: dict(dom='g_len > 0', result=['R == OLD(g_len - 1)'])),
    M('at', 'at( idx)', 'cT', [(Z, 'idx')], False,
      spec=lambda L, K: dict(dom='1', result=['(idx < g_len) ==> (*thrown == 0 && R == OLD(idx))', '(idx > g_len) ==> (*thrown != 0)'])),
    M('substr', 'substr( pos, count)', 'str', [(Z, 'pos'), (Z, 'count')], False,
      spec=lambda L, K: dict(dom='pos <= g_len', result=['R == ' + MIN('count', 'g_len - pos')] +
                             ['(%d >= R || out[%d] == OLD(pos + %d))' % (j, j, j) for j in range(L)])),
    M('str', 'str()', 'str', [], False,
      spec=lambda L, K: dict(dom='1', result=['R == g_len'] + ['(%d >= R || out[%d] == g%d)' % (j, j, j) for j in range(L)])),
    M('api', 'length()', 'z', [], False,
      spec=lambda L, K: dict(dom='1', result=['R == g_len', 'w_api_length(self) == g_len', '(w_api_empty(self) != 0) == (g_len == 0)']
                             + ['(%d > g_len || w_api_cstr_at(self,%d) == (%d < g_len ? g%d : 0))' % (j, j, j, min(j, L - 1)) for j in range(L + 1)])),
]
eq = M('eq', '', 'B', [(F, 'other')], False,
       spec=lambda L, K: dict(dom='1', result=['(R != 0) == (g_len == other_n' + ''.join(' && (%d >= g_len || g%d == other_%d)' % (j, j, j) for j in range(L)) + ')']))
eq.raw = 'return celma::common::cv_op_eq< {L}>( *static_cast<const FS*>(self), other);'
ne = M('ne', '', 'B', [(F, 'other')], False,
       spec=lambda L, K: dict(dom='1', result=['(R != 0) == !(g_len == other_n' + ''.join(' && (%d >= g_len || g%d == other_%d)' % (j, j, j) for j in range(L)) + ')']))
ne.raw = 'return celma::common::cv_op_ne< {L}>( *static_cast<const FS*>(self), other);'
OBS += [eq, ne]
# constructors: the object is built on the heap and never destroyed (a local object would call the `= default` destructor),
# its bytes are copied into the caller's block
for cid, kind in (('ctor_s', S), ('ctor_S', SS)):
    c = M(cid, '', 'v', [(kind, 'str')], True,
          spec=lambda L, K: dict(dom='1', newlen='(str_n > L ? L : str_n)', expect='SRC(str,k)'))
    c.ctor = True
    c.raw = 'FS cv_t( str); FS* cv_d = static_cast<FS*>(self); cv_d->mLength = cv_t.mLength; for (size_t i = 0; i <= {L}; ++i) cv_d->mString[i] = cv_t.mString[i];'
    c.call = 'FixedString( %s)' % ('const char*' if kind == S else 'const std::string&')
    OBS.append(c)
# ---- iterators (textually instantiated classes): an iterator over this string is (object, index) with index == EndValue
# (= npos) for end()/rend(); the invariant "index is End or a valid position" is preserved by every step (C10), the steps
# follow std::string's iterators inside their domain and the traversals visit the content in order (C11)
IT = 'celma::common::detail::FixedStringIterator'
RIT = 'celma::common::detail::FixedStringReverseIterator'
INV_IT = '(idx == %s || idx < g_len)' % NPOS
STEP = ('FS* o = static_cast<FS*>(self); %s it( true, o); it.mIndex = idx; '
        'switch (op) { case 0: ++it; break; case 1: it++; break; case 2: --it; break; case 3: it--; break; case 4: it += val; break; default: it -= val; } return it.mIndex;')


def sp_step(rev):
    def f(L, K):
        E = NPOS
        fwd = '(idx + 1 < g_len ? idx + 1 : %s)' % E                  # towards higher indices, End after the last
        bwd = '(idx == %s ? g_len - 1 : idx - 1)' % E                  # towards lower indices; from End to the last character
        adv = '(idx + val < g_len ? idx + val : %s)' % E
        back = '(idx == %s ? g_len - val : idx - val)' % E
        if not rev:
            inc, dec, plus, minus = fwd, bwd, adv, back
            dom_inc, dom_dec = 'idx != %s' % E, '(idx == %s ? g_len > 0 : idx > 0)' % E
            dom_plus = 'idx != %s && val <= g_len - idx' % E
            dom_minus = '(idx == %s ? (val >= 1 && val <= g_len) : val <= idx)' % E
        else:
            # reverse iterator: ++ moves to lower indices and reaches End (rend) after index 0; -- moves up, from rend to index 0
            inc = '(idx > 0 ? idx - 1 : %s)' % E
            dec = '(idx == %s ? 0 : idx + 1)' % E
            plus = '(val <= idx ? idx - val : %s)' % E
            minus = '(idx == %s ? val - 1 : idx + val)' % E
            dom_inc, dom_dec = 'idx != %s' % E, '(idx == %s ? g_len > 0 : idx + 1 < g_len)' % E
            dom_plus = 'idx != %s && val <= idx + 1' % E
            dom_minus = '(idx == %s ? (val >= 1 && val <= g_len) : val < g_len - idx)' % E
        dom = '(op <= 1 ? (%s) : op <= 3 ? (%s) : op == 4 ? (%s) : (%s))' % (dom_inc, dom_dec, dom_plus, dom_minus)
        res = '(op <= 1 ? %s : op <= 3 ? %s : op == 4 ? %s : %s)' % (inc, dec, plus, minus)
        return dict(dom=INV_IT + ' && op <= 5 && ' + dom, result=['R == ' + res])
    return f


for ident, cls, rev in (('it_step', IT, False), ('rit_step', RIT, True)):
    m = M(ident, '', 'z', [(Z, 'idx'), (Z, 'op'), (Z, 'val')], False, dom10=INV_IT + ' && op <= 5', spec=sp_step(rev))
    m.raw = STEP % cls
    m.ens10 = ['R == %s || R < g_len  /* iterator invariant: End or a valid position */' % NPOS]
    m.call = ('reverse_' if rev else '') + 'iterator: ++ / ++(int) / -- / --(int) / += / -='
    OBS.append(m)
for ident, cls in (('it_deref', IT), ('rit_deref', RIT)):
    m = M(ident, '', 'c', [(Z, 'idx')], False, dom10=INV_IT, spec=lambda L, K: dict(dom='idx < g_len', result=['R == OLD(idx)']))
    m.raw = 'FS* o = static_cast<FS*>(self); %s it( true, o); it.mIndex = idx; return *it;' % cls
    m.call = ('reverse_' if 'Reverse' in cls else '') + 'iterator::operator*'
    OBS.append(m)
TRAV = ('FS* o = static_cast<FS*>(self); size_t n = 0; for (%(cls)s it = %(obj)s%(b)s(); it != %(obj)s%(e)s(); ++it) { if (n >= out_cap) break; out[n++] = *it; } return n;')
for ident, cls, b, e, const, rev in (('iter_fwd', IT, 'begin', 'end', False, False), ('iter_cfwd', IT, 'cbegin', 'cend', True, False), ('iter_constfwd', IT, 'begin', 'end', True, False),
                                      ('iter_rev', RIT, 'rbegin', 'rend', False, True), ('iter_crev', RIT, 'crbegin', 'crend', True, True), ('iter_constrev', RIT, 'rbegin', 'rend', True, True)):
    m = M(ident, '', 'str', [], False,
          spec=(lambda rev: (lambda L, K: dict(dom='1', result=['R == g_len'] + ['(%d >= R || out[%d] == %s)' % (j, j, ('OLD(g_len - 1 - %d)' % j) if rev else ('g%d' % j)) for j in range(L)])))(rev))
    m.raw = TRAV % dict(cls=cls, obj='static_cast<const FS*>(o)->' if const else 'o->', b=b, e=e)
    m.call = '%s() .. %s()%s traversal' % (b, e, ' const' if const and not b.startswith('c') else '')
    OBS.append(m)

# ---- iterator-taking overloads (kept in the shadow since the iterator classes are instantiated): an iterator argument is passed as
# its index (npos = end()); P(i) is the position it designates
from .fs import _ins, _rep, _app
CIT = 'celma::common::detail::FixedStringIterator'
MKIT = '#define CV_IT(o, i) ((i) == %s ? (o)->cend() : %s( (o), (i)))\n' % (NPOS, CIT)
VALID = lambda i, n='g_len': '(%s == %s || %s < %s)' % (i, NPOS, i, n)
P = lambda i, n='g_len': '(%s == %s ? %s : %s)' % (i, NPOS, n, i)
RES_INV = ['R == %s || R < w_length(self)  /* returned iterator: End or a valid position of the new string */' % NPOS]


def _dom(spec, extra):
    d = dict(spec)
    d['dom'] = '(%s) && (%s)' % (spec['dom'], extra)
    return d


def itm(ident, call, ret, args, raw, spec, dom10, ens10=()):
    m = M(ident, '', ret, args, True, spec=spec, dom10=dom10)
    m.raw = 'FS* o = static_cast<FS*>(self); ' + raw
    m.call = call
    m.ens10 = list(ens10)
    OBS.append(m)


itm('insert_it_c', 'insert( const_iterator pos, char ch)', 'z', [(Z, 'i1'), (C, 'ch')], 'return o->insert( CV_IT(o, i1), ch).mIndex;',
    dict(_ins('1', 'ch'), dom=VALID('i1')).__class__(_dom(dict(_ins('1', 'ch')), VALID('i1'))), VALID('i1'), RES_INV)
OBS[-1].spec = (lambda sp: {**sp, 'newlen': sp['newlen'].replace('index', P('i1')), 'expect': sp['expect'].replace('index', P('i1')), 'dom': VALID('i1')})(_ins('1', 'ch'))
itm('insert_it_nc', 'insert( const_iterator pos, size_t count, char ch)', 'z', [(Z, 'i1'), (Z, 'count'), (C, 'ch')], 'return o->insert( CV_IT(o, i1), count, ch).mIndex;', None, VALID('i1'), RES_INV)
OBS[-1].spec = (lambda sp: {**sp, 'newlen': sp['newlen'].replace('index', P('i1')), 'expect': sp['expect'].replace('index', P('i1')), 'dom': VALID('i1')})(_ins('count', 'ch'))
ER1 = dict(dom=VALID('i1') + ' && i1 != ' + NPOS, newlen='(g_len - 1)', expect='((k) < i1 ? OLD(k) : OLD((k) + 1))')
itm('erase_it', 'erase( const_iterator position)', 'z', [(Z, 'i1')], 'return o->erase( CV_IT(o, i1)).mIndex;', ER1, VALID('i1'), RES_INV)
CNT2 = '(%s - %s)' % (P('i2'), P('i1'))
ER2 = dict(dom='%s && %s && %s <= %s' % (VALID('i1'), VALID('i2'), P('i1'), P('i2')), newlen='(g_len - %s)' % CNT2,
           expect='((k) < %s ? OLD(k) : OLD((k) + %s))' % (P('i1'), CNT2))
itm('erase_it2', 'erase( const_iterator first, const_iterator last)', 'z', [(Z, 'i1'), (Z, 'i2')], 'return o->erase( CV_IT(o, i1), CV_IT(o, i2)).mIndex;', ER2,
    VALID('i1') + ' && ' + VALID('i2'), RES_INV)
RNG = '%s && %s && %s <= %s' % (VALID('i1'), VALID('i2'), P('i1'), P('i2'))
itm('replace_it2_s', 'replace( const_iterator first, const_iterator last, const char* str)', 'r', [(Z, 'i1'), (Z, 'i2'), (S, 'str')],
    'FS& cv_r = o->replace( CV_IT(o, i1), CV_IT(o, i2), str); return &cv_r == o;', _rep(P('i1'), CNT2, 'str_n', 'SRC(str,J)', dom=RNG), VALID('i1') + ' && ' + VALID('i2'))
itm('replace_it2_sn', 'replace( const_iterator first, const_iterator last, const char* str, size_t count2)', 'r', [(Z, 'i1'), (Z, 'i2'), (S, 'str'), (Z, 'count2')],
    'FS& cv_r = o->replace( CV_IT(o, i1), CV_IT(o, i2), str, count2); return &cv_r == o;', _rep(P('i1'), CNT2, 'count2', 'SRC(str,J)', dom=RNG + ' && count2 <= str_n'),
    VALID('i1') + ' && ' + VALID('i2') + ' && count2 <= str_n')
itm('replace_it2_cc', 'replace( const_iterator first, const_iterator last, size_t count2, char ch)', 'r', [(Z, 'i1'), (Z, 'i2'), (Z, 'count2'), (C, 'ch')],
    'FS& cv_r = o->replace( CV_IT(o, i1), CV_IT(o, i2), count2, ch); return &cv_r == o;', _rep(P('i1'), CNT2, 'count2', 'ch', dom=RNG), VALID('i1') + ' && ' + VALID('i2'))
PO = lambda i: P(i, 'other_n')
itm('append_it2', 'append( const_iterator first, const_iterator last)', 'r', [(F, 'other'), (Z, 'i1'), (Z, 'i2')],
    'FS& cv_r = o->append( CV_IT(&other, i1), CV_IT(&other, i2)); return &cv_r == o;',
    dict(_app('(%s - %s)' % (PO('i2'), PO('i1')), 'SRC(other,%s + J)' % PO('i1')), dom='%s && %s && %s <= %s' % (VALID('i1', 'other_n'), VALID('i2', 'other_n'), PO('i1'), PO('i2'))),
    '%s && %s && %s <= %s' % (VALID('i1', 'other_n'), VALID('i2', 'other_n'), PO('i1'), PO('i2')))
RNGO = '%s && %s && %s <= %s' % (VALID('j1', 'other_n'), VALID('j2', 'other_n'), PO('j1'), PO('j2'))
itm('replace_it2_ii', 'replace( const_iterator first, const_iterator last, iterator first2, iterator last2)', 'r', [(Z, 'i1'), (Z, 'i2'), (F, 'other'), (Z, 'j1'), (Z, 'j2')],
    'FS& cv_r = o->replace( CV_IT(o, i1), CV_IT(o, i2), CV_IT(&other, j1), CV_IT(&other, j2)); return &cv_r == o;',
    _rep(P('i1'), CNT2, '(%s - %s)' % (PO('j2'), PO('j1')), 'SRC(other,%s + J)' % PO('j1'), dom=RNG + ' && ' + RNGO), VALID('i1') + ' && ' + VALID('i2') + ' && ' + RNGO)

# std::string sources of ANY length (the property says "source strings of any size"): the members that take a whole std::string and
# never index into it; the find_*_of family scans the whole set with strchr and the (str, pos, count) overloads take sub-ranges
# (std::string::substr temporaries), they keep the bounded sources
for _m in METHODS + OBS:
    if _m.id in ('assign_S', 'opassign_S', 'ctor_S', 'append_S', 'pluseq_S', 'insert_S', 'replace_pcS', 'compare_S', 'compare_pcS', 'starts_with_S',
                 'ends_with_S', 'contains_S', 'find_S', 'rfind_S',
                 'assign_s', 'opassign_s', 'ctor_s', 'append_s', 'pluseq_s', 'insert_s', 'replace_pcs', 'compare_s', 'compare_pcs', 'starts_with_s',
                 'ends_with_s', 'contains_s', 'find_sp', 'rfind_sp'):
        _m.long_src = True

# ---- cross-capacity members (template< size_t S>, textually instantiated with S := CV_S, see T-INST-S): the other operand is a
# FixedString of the second capacity S2 of the proof instance ('G' argument: ghosts str_n <= S2, str_0..); the specification is
# the one of the std::string overload (same names), evaluated with source width S2
import copy
G = 'G'
CROSS_FROM = ['insert_S', 'insert_Spc', 'append_S', 'append_Spc', 'pluseq_S', 'replace_pcS', 'replace_pcSpc', 'assign_S', 'opassign_S',
              'compare_S', 'compare_pcS', 'compare_pcSpc', 'starts_with_S', 'ends_with_S', 'contains_S', 'ctor_S']
for _id in CROSS_FROM:
    _src = next(m for m in METHODS + OBS if m.id == _id)
    _m = copy.copy(_src)
    _m.id = _id[:-1] + 'G' if _id.endswith('S') else _id.replace('S', 'G', 1) if _id.startswith('ctor') else _id.replace('Spc', 'Gpc')
    _m.args = [(G if k == 'S' else k, n) for k, n in _src.args]
    _m.cross = True
    _m.kf_as = _src.id
    _m.disp = _src.call.replace(' str', ' const FixedString< S2>& str') if not _src.ctor else 'FixedString( const FixedString< S2>&)'
    _m.only_diff = _id in ('opassign_S', 'ctor_S')   # with S2 == L these are the (defaulted) copy operations
    if _id == 'opassign_S':
        _m.call = 'cv_op_assign( str)'
    if _id == 'ctor_S':
        _m.raw = _src.raw.replace('FS cv_t( str);', 'FS cv_t( str, 0);')
    OBS.append(_m)
for _id, _neg in (('eq_G', ''), ('ne_G', '!')):
    _m = M(_id, 'operator %s( const FixedString< L>&, const FixedString< S2>&)' % ('!=' if _neg else '=='), 'B', [(G, 'other')], False,
           spec=(lambda neg: lambda L, K: dict(dom='1', result=['(R != 0) == %s(g_len == other_n' % neg + ''.join(' && (%d >= g_len || g%d == SRC(other,%d))' % (j, j, j) for j in range(L)) + ')']))(_neg))
    _m.raw = 'return celma::common::cv_op_%s< {L}>( *static_cast<const FS*>(self), other);' % _id[:2]
    _m.cross = True
    _m.only_diff = False
    OBS.append(_m)

# overloads taking std::initializer_list< char> (a (pointer, length) view built field-wise by the wrapper) and std::string iterators
IL = 'std::initializer_list< char> cv_il; cv_il.mB = str; cv_il.mN = count2; '
itm('insert_it_il', 'insert( const_iterator pos, std::initializer_list< char> ilist)', 'z', [(Z, 'i1'), (B, 'str'), (Z, 'count2')],
    IL + 'return o->insert( CV_IT(o, i1), cv_il).mIndex;', None, VALID('i1'), RES_INV)
OBS[-1].blen = 'count2'
OBS[-1].spec = (lambda sp: {**sp, 'newlen': sp['newlen'].replace('index', P('i1')), 'expect': sp['expect'].replace('index', P('i1')), 'dom': VALID('i1')})(_ins('count2', 'SRC(str,J)'))
OBS[-1].kf_as = 'insert_it_nc'
itm('replace_it2_il', 'replace( const_iterator first, const_iterator last, std::initializer_list< char> ilist)', 'r', [(Z, 'i1'), (Z, 'i2'), (B, 'str'), (Z, 'count2')],
    IL + 'FS& cv_r = o->replace( CV_IT(o, i1), CV_IT(o, i2), cv_il); return &cv_r == o;', _rep(P('i1'), CNT2, 'count2', 'SRC(str,J)', dom=RNG), VALID('i1') + ' && ' + VALID('i2'))
OBS[-1].blen = 'count2'
OBS[-1].kf_as = 'replace_it2_sn'
SJ = 'j1 <= j2 && j2 <= str_n'
itm('replace_it2_si', 'replace( const_iterator first, const_iterator last, std::string::iterator first2, std::string::iterator last2)', 'r',
    [(Z, 'i1'), (Z, 'i2'), (SS, 'str'), (Z, 'j1'), (Z, 'j2')],
    'FS& cv_r = o->replace( CV_IT(o, i1), CV_IT(o, i2), str.begin() + j1, str.begin() + j2); return &cv_r == o;',
    _rep(P('i1'), CNT2, '(j2 - j1)', 'SRC(str,j1 + J)', dom=RNG + ' && ' + SJ), VALID('i1') + ' && ' + VALID('i2') + ' && ' + SJ)
OBS[-1].kf_as = 'replace_it2_si'

# sprintf: the variable arguments only reach vsnprintf, which is an ASSUMED contract (stubs/cstdio: writes at most n bytes, NUL-terminated,
# returns the length the complete output would have); C10 only (no std::string counterpart)
OBS.append(M('sprintf', 'sprintf( str)', 'r', [(S, 'str')], True))
OBSERVERS[:] = OBS
