"""Observers of FixedString<L> (C10: safety + unchanged content; C11: result equals std::string's)."""
from .fs import M, OBSERVERS, METHODS

Z, C, S, B, SS, F, D = 'z', 'c', 's', 'b', 'S', 'F', 'd'

OBS = [
    M('compare_S', 'compare( str)', 'i', [(SS, 'str')], False),
    M('compare_s', 'compare( str)', 'i', [(S, 'str')], False),
    M('compare_pcS', 'compare( pos1, count1, str)', 'i', [(Z, 'pos1'), (Z, 'count1'), (SS, 'str')], False),
    M('compare_pcs', 'compare( pos1, count1, str)', 'i', [(Z, 'pos1'), (Z, 'count1'), (S, 'str')], False),
    M('compare_pcSpc', 'compare( pos1, count1, str, pos2, count2)', 'i',
      [(Z, 'pos1'), (Z, 'count1'), (SS, 'str'), (Z, 'pos2'), (Z, 'count2')], False),
    M('compare_pcsn', 'compare( pos1, count1, str, count2)', 'i', [(Z, 'pos1'), (Z, 'count1'), (S, 'str'), (Z, 'count2')], False),
    M('starts_with_S', 'starts_with( str)', 'B', [(SS, 'str')], False),
    M('starts_with_s', 'starts_with( str)', 'B', [(S, 'str')], False),
    M('starts_with_c', 'starts_with( ch)', 'B', [(C, 'ch')], False),
    M('ends_with_S', 'ends_with( str)', 'B', [(SS, 'str')], False),
    M('ends_with_s', 'ends_with( str)', 'B', [(S, 'str')], False),
    M('ends_with_c', 'ends_with( ch)', 'B', [(C, 'ch')], False),
    M('contains_S', 'contains( str)', 'B', [(SS, 'str')], False),
    M('contains_s', 'contains( str)', 'B', [(S, 'str')], False),
    M('contains_c', 'contains( ch)', 'B', [(C, 'ch')], False),
    M('copy', 'copy( dest, count, pos)', 'z', [(D, 'dest'), (Z, 'count'), (Z, 'pos')], False, blen='count'),
    M('swap', 'swap( other)', 'v', [(F, 'other')], True),
    M('find_F', 'find( other, pos)', 'z', [(F, 'other'), (Z, 'pos')], False),
    M('find_S', 'find( str, pos)', 'z', [(SS, 'str'), (Z, 'pos')], False),
    M('find_spn', 'find( str, pos, count)', 'z', [(B, 'str'), (Z, 'pos'), (Z, 'count')], False, blen='count'),
    M('find_sp', 'find( str, pos)', 'z', [(S, 'str'), (Z, 'pos')], False),
    M('find_c', 'find( ch, pos)', 'z', [(C, 'ch'), (Z, 'pos')], False),
    M('rfind_F', 'rfind( other, pos)', 'z', [(F, 'other'), (Z, 'pos')], False),
    M('rfind_S', 'rfind( str, pos)', 'z', [(SS, 'str'), (Z, 'pos')], False),
    M('rfind_spn', 'rfind( str, pos, count)', 'z', [(S, 'str'), (Z, 'pos'), (Z, 'count')], False),
    M('rfind_sp', 'rfind( str, pos)', 'z', [(S, 'str'), (Z, 'pos')], False),
    M('rfind_c', 'rfind( ch, pos)', 'z', [(C, 'ch'), (Z, 'pos')], False),
]
for fam in ('find_first_of', 'find_first_not_of', 'find_last_of', 'find_last_not_of'):
    OBS += [
        M(fam + '_F', fam + '( other, pos)', 'z', [(F, 'other'), (Z, 'pos')], False),
        M(fam + '_S', fam + '( str, pos)', 'z', [(SS, 'str'), (Z, 'pos')], False),
        M(fam + '_spn', fam + '( str, pos, count)', 'z', [(B, 'str'), (Z, 'pos'), (Z, 'count')], False, blen='count'),
        M(fam + '_sp', fam + '( str, pos)', 'z', [(S, 'str'), (Z, 'pos')], False),
        M(fam + '_c', fam + '( ch, pos)', 'z', [(C, 'ch'), (Z, 'pos')], False),
    ]
OBS += [
    M('index', 'operator []( idx)', 'c', [(Z, 'idx')], False, dom10='idx <= g_len'),
    M('front', 'front()', 'c', [], False),
    M('back', 'back()', 'c', [], False),
]
OBSERVERS[:] = OBS
