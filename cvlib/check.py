"""Generic check driver: runs the jobs of one property, classifies, replays, writes evidence."""
import fnmatch
import json
import os
import re
import sys
import time

from . import core
from .core import Undecided, log

KF_PATH = os.path.join(core.VERIF, 'known_findings.json')
# evidence and replay files go to /verif unless CV_OUT redirects them (used when checks are tried against a scratch copy
# of the repository with a seeded change: the committed evidence must come from /repo itself)
OUT = os.environ.get('CV_OUT', core.VERIF)


def load_known_findings(prop):
    try:
        data = json.load(open(KF_PATH))
    except OSError:
        return []
    return [f for f in data.get('findings', []) if f.get('property') == prop]


def kf_match(finding, job, o):
    if finding.get('regions') is not None:
        # region findings apply only to the job that runs inside that region
        if job.finding_region != finding['id']:
            return False
    elif not fnmatch.fnmatch(job.name, finding.get('job', '*')):
        return False
    for pat in finding.get('obligations', []):
        if fnmatch.fnmatch(o['id'], pat) or pat in o['id'] or pat in o['text'] or pat in (o.get('clause') or ''):
            return True
    return False


def tool_versions():
    v = {}
    for t, a in (('cbmc', ['--version']), ('z3', ['--version']), ('cvc5', ['--version']), ('g++', ['--version'])):
        try:
            rc, out, err, s = core.run([t] + a, timeout=20, limit=False)
            v[t] = (out or err).strip().splitlines()[0][:80]
        except Exception as e:
            v[t] = 'missing'
    return v


def write_replay(prop, job, o, inputs, native, extra=None):
    d = os.path.join(OUT, 'replays', prop)
    os.makedirs(d, exist_ok=True)
    safe = re.sub(r'[^A-Za-z0-9_.-]+', '_', '%s__%s' % (job.name, o['id']))[:150]
    path = os.path.join(d, safe + '.json')
    rec = {'property': prop, 'job': job.name, 'function': job.function, 'contract': job.contract,
           'instance': job.instance, 'mode': job.mode, 'backend': job.backend,
           'failed_obligation': {'id': o['id'], 'text': o['text'], 'clause': o.get('clause'),
                                 'class': o.get('class'), 'file': o.get('file'), 'line': o.get('line'),
                                 'function': o.get('function')},
           'verifier': 'cbmc 6.11 (%s)' % job.cmd, 'verifier_status': 'FAILURE',
           'counterexample_inputs': inputs, 'native_replay': native}
    if extra:
        rec.update(extra)
    with open(path, 'w') as f:
        json.dump(rec, f, indent=1)
    return path


def run_check(prop, mod, tier, level, only=None):
    t0 = time.time()
    seed = int(os.environ.get('VERIF_SEED', '0') or 0)
    scratch = core.Scratch(prop.lower())
    import shutil
    shutil.rmtree(os.path.join(OUT, 'replays', prop), ignore_errors=True)
    rc = 0
    jobs, unit = [], None
    undecided_reason = None
    violations, known_hits = [], {}
    try:
        try:
            unit = mod.Unit(scratch)
            jobs = mod.jobs(unit, tier, only)
            if not jobs:
                raise Undecided('no jobs generated')
            log('%s: %d obligation groups, tier %s, %d parallel' % (prop, len(jobs), tier, core.NCPU))
            core.run_jobs(jobs, scratch, getattr(unit, 'clause_text', None))
        except Undecided as e:
            undecided_reason = str(e)
        findings = load_known_findings(prop)
        for j in jobs:
            if j.status != 'fail':
                continue
            traces = None
            for o in j.failed:
                kf = next((f for f in findings if kf_match(f, j, o)), None)
                if kf is not None:
                    known_hits.setdefault(kf['id'], kf)
                    o['known_finding'] = kf['id']
                    continue
                if traces is None:
                    try:
                        traces = core.get_trace(j)
                    except Exception as e:
                        traces = {}
                inputs = traces.get(o['id'], {})
                native = {'outcome': 'unavailable', 'detail': 'no native replay for this unit'}
                if hasattr(mod, 'replay'):
                    try:
                        native = mod.replay(unit, j, o, inputs, scratch)
                    except Exception as e:
                        native = {'outcome': 'unavailable', 'detail': 'replay driver error: %r' % (e,)}
                path = write_replay(prop, j, o, inputs, native)
                violations.append((j, o, path, native))
        # a job running inside a known-finding region may only fail the listed obligations: handled by
        # kf_match above (anything else is a new violation).
        undec = [j for j in jobs if j.status == 'undecided']
        for f in known_hits.values():
            print('KNOWN-FINDING: property=%s %s' % (prop, f['what']))
        for k, (j, o, path, native) in enumerate(violations):
            sfx = '' if native.get('outcome') == 'reproduced' else ' no-failing-input-found'
            if k < 12 or os.environ.get('CV_VERBOSE'):
                print('VIOLATION property=%s replay=%s%s' % (prop, path, sfx))
                log('   %s: obligation %s "%s" %s' % (j.name, o['id'], o['text'], o.get('clause') or ''))
        if len(violations) > 12 and not os.environ.get('CV_VERBOSE'):
            log('   ... and %d more failed obligations (replay files under replays/%s/)' % (len(violations) - 12, prop))
        if violations:
            rc = 1
        elif undecided_reason or undec:
            rc = 2
            if undecided_reason:
                log('UNDECIDED: ' + undecided_reason)
            seen = {}
            for j in undec:
                seen.setdefault(j.reason[:120], []).append(j)
            for r, js in list(seen.items())[:8]:
                log('UNDECIDED (%d groups, e.g. %s): %s' % (len(js), js[0].name, js[0].reason[:900]))
        write_evidence(prop, mod, unit, jobs, tier, seed, level, time.time() - t0, violations, known_hits,
                       undecided_reason, undec)
    finally:
        scratch.cleanup()
    wall = time.time() - t0
    nobl = sum(len(j.obligations) for j in jobs)
    ndis = sum(1 for j in jobs for o in j.obligations if o['status'] == 'SUCCESS')
    log('%s %s: %d/%d obligations discharged in %d groups, %d violations, %d undecided groups, %.0fs -> exit %d'
        % (prop, tier, ndis, nobl, len(jobs), len(violations), len([j for j in jobs if j.status == 'undecided']), wall, rc))
    return rc


def write_evidence(prop, mod, unit, all_jobs, tier, seed, level, wall, violations, known_hits, undecided_reason, undec):
    # jobs that run inside a known-finding region are reported separately: their listed failing
    # obligations are the finding, they are neither counted as obligations nor as discharged
    jobs = [j for j in all_jobs if not j.finding_region]
    region_jobs = [j for j in all_jobs if j.finding_region]
    nobl = sum(len(j.obligations) for j in jobs)
    ndis = sum(1 for j in jobs for o in j.obligations if o['status'] == 'SUCCESS')
    by_backend, solver_s = {}, {}
    for j in jobs:
        by_backend[j.backend] = by_backend.get(j.backend, 0) + sum(1 for o in j.obligations if o['status'] == 'SUCCESS')
        solver_s[j.backend] = round(solver_s.get(j.backend, 0) + j.solver_s, 1)
    funcs = {}
    for j in jobs:
        f = funcs.setdefault(j.function, {'contract': j.contract, 'mode': j.mode, 'instances': 0,
                                          'obligations': 0, 'discharged': 0, 'solver_s': 0.0,
                                          'backends': [], 'bounded': j.bounded})
        f['instances'] += 1
        f['obligations'] += len(j.obligations)
        f['discharged'] += sum(1 for o in j.obligations if o['status'] == 'SUCCESS')
        f['solver_s'] = round(f['solver_s'] + j.solver_s, 1)
        if j.backend not in f['backends']:
            f['backends'].append(j.backend)
    samples = []
    seen = set()
    for j in jobs:
        for o in j.obligations:
            if o.get('class') in ('postcondition', 'assertion') and (j.group, o.get('clause') or o['text']) not in seen and len(samples) < 12:
                seen.add((j.group, o.get('clause') or o['text']))
                samples.append({'job': j.name, 'function': j.function, 'obligation': o['id'],
                                'text': o.get('clause') or o['text'], 'status': o['status']})
    classes = {}
    for j in jobs:
        for o in j.obligations:
            classes[o.get('class') or 'other'] = classes.get(o.get('class') or 'other', 0) + 1
    info = mod.evidence_info(unit, tier) if (unit is not None and hasattr(mod, 'evidence_info')) else {}
    bounded = sorted(set(j.bounded for j in jobs if j.bounded))
    cov = {
        'obligations': nobl, 'discharged': ndis,
        'checker_cmd': 'goto-cc (C++ shadow TU + C contracts) | goto-instrument --dfcc <harness> --enforce-contract F/C '
                       '[--replace-call-with-contract G/D ...] | cbmc %s --json-ui [--z3|--cvc5] '
                       '[--unwind K --unwinding-assertions]' % ' '.join(core.SAFETY_FLAGS),
        'trusted_base': info.get('trusted_base', []),
        'explanation': info.get('explanation', ''),
        'obligation_groups': len(jobs),
        'groups_ok': sum(1 for j in jobs if j.status == 'ok'),
        'groups_failed': sum(1 for j in jobs if j.status == 'fail'),
        'groups_undecided': [{'job': j.name, 'reason': j.reason[:300]} for j in undec],
        'undecided_reason': undecided_reason,
        'discharged_by_backend': by_backend, 'solver_seconds_by_backend': solver_s,
        'obligation_classes': classes,
        'functions_under_contract': funcs,
        'functions_not_under_contract': info.get('not_under_contract', []),
        'bounded': bounded,
        'canaries_fired': sum(1 for j in jobs if j.canary == 'FAILURE'),
        'extraction': unit.shadow.summary() if unit is not None and hasattr(unit, 'shadow') else [],
        'witnesses': getattr(unit, 'witnesses', []) if unit is not None else [],
        'tools': tool_versions(),
        'known_findings_reported': sorted(known_hits),
        'known_finding_region_groups': [{'job': j.name, 'region': j.instance.get('inside_region'), 'status': j.status,
                                         'obligations': len(j.obligations),
                                         'failed_listed': [o['id'] for o in j.failed if o.get('known_finding')],
                                         'failed_unlisted': [o['id'] for o in j.failed if not o.get('known_finding')]}
                                        for j in region_jobs],
        'samples': samples,
        'exhaustive': False,
    }
    cov.update(info.get('extra', {}))
    ev = {'property_id': prop, 'tier': tier, 'seed': seed, 'level': level, 'coverage': cov,
          'assumptions': info.get('assumptions', []), 'wall_s': round(wall, 1), 'violations': len(violations)}
    d = os.path.join(OUT, 'evidence')
    os.makedirs(d, exist_ok=True)
    with open(os.path.join(d, prop + '.json'), 'w') as f:
        json.dump(ev, f, indent=1)
