"""C07 (first sentence only) -- splitting a command-line string inverts quoting.  Bounded, harness mode."""
import os
import re

from . import core, as2a
from .core import Job, Undecided


HARNESS_RM = r'''// generated: read-mode slice of Handler (second half of C07, the override mechanism only).  Sliced mechanically each run:
// enum ReadMode (handler.hpp), class template ScopedFlag (scoped_value.hpp), the first argument of every ->assignValue( ...) call and the
// flag of every `ScopedFlag< uint8_t> sf( mReadMode, ...)` statement of handler.cpp.
#include <cstdint>
#include <cassert>
#define CANARY __CPROVER_assert(0, "CV_CANARY")
namespace celma { namespace common {
@SCOPEDFLAG@
} }
namespace celma {
struct CV_Handler {
@ENUM@
   uint8_t mReadMode;
@SITES@
};
}
using celma::CV_Handler;
// representation invariant of the read mode: a set of the two source bits (initially 0, modified by ScopedFlag only)
#define INV_RM(h) ((h).mReadMode <= (CV_Handler::file | CV_Handler::envVar))
extern "C" {
void h_rm_sites() {
  CV_Handler h; __CPROVER_assume(INV_RM(h));
  __CPROVER_assert(CV_Handler::commandLine == 0 && CV_Handler::file != 0 && CV_Handler::envVar != 0 && (CV_Handler::file & CV_Handler::envVar) == 0
                   && CV_Handler::file <= 255 && CV_Handler::envVar <= 255, "read modes: command line is the empty set, file and environment variable are distinct bits");
@SITE_ASSERTS@
  CANARY; }
void h_rm_scope() {
  CV_Handler h; __CPROVER_assume(INV_RM(h)); const uint8_t v = h.mReadMode; unsigned char cvin_which, cvin_inner;
  const int flags[@NFLAGS@] = { @FLAGS@ }; const bool guarded[@NFLAGS@] = { @GUARDED@ };
  __CPROVER_assume(cvin_which < @NFLAGS@ && cvin_inner < @NFLAGS@);
  const int f = flags[cvin_which], g = flags[cvin_inner];
  if (guarded[cvin_which]) __CPROVER_assume((v & f) == 0);      // the assert( (mReadMode & flag) == 0) in front of the statement
  {
    const celma::common::ScopedFlag< uint8_t> sf( h.mReadMode, f);
    __CPROVER_assert(h.mReadMode == (v | f), "while a source is read its bit is set and the other bits are unchanged");
    __CPROVER_assert(h.mReadMode != CV_Handler::commandLine, "while a file / the environment variable is read the mode is not 'command line'");
    if (g != f && (!guarded[cvin_inner] || (h.mReadMode & g) == 0)) {
      const celma::common::ScopedFlag< uint8_t> sf2( h.mReadMode, g);     // an argument file named inside the environment variable
      __CPROVER_assert(h.mReadMode == (v | f | g), "nested source: both bits set");
    }
    __CPROVER_assert(h.mReadMode == (v | f), "leaving the nested source restores the outer mode");
  }
  __CPROVER_assert(h.mReadMode == v && INV_RM(h), "after the source has been read the previous read mode is restored");
  CANARY; }
}
'''


class Unit(as2a.Unit):
    """ArgString2Array unit + the read-mode slice of Handler."""
    def __init__(self, scratch):
        super().__init__(scratch)
        def rd(rel):
            try:
                return open(os.path.join(core.SRC, rel)).read()
            except OSError as e:
                raise Undecided('extraction: cannot read %s: %s' % (rel, e))
        hpp, cpp, sv = rd('celma/prog_args/handler.hpp'), rd('library/prog_args/handler.cpp'), rd('celma/common/scoped_value.hpp')
        cpp = re.sub(r'//[^\n]*|/\*.*?\*/', '', cpp, flags=re.S)      # comments do not count as uses
        m_enum = re.search(r'^   enum ReadMode : uint8_t\n   \{\n.*?\n   \};\n', hpp, flags=re.M | re.S)
        m_sf = re.search(r'^template< typename S> class ScopedFlag\n\{\n.*?\n\}; // ScopedFlag< S>\n', sv, flags=re.M | re.S)
        sites = re.findall(r'->assignValue\(\s*((?:[^,()]|\([^()]*\))+),', cpp)
        flags = re.findall(r'ScopedFlag< uint8_t>\s+\w+\( mReadMode, (ReadMode::\w+)\);', cpp)
        guards = re.findall(r'assert\( \(mReadMode & (ReadMode::\w+)\) == 0\);', cpp)
        if not m_enum or not m_sf or len(sites) < 2 or len(flags) < 2 or len(re.findall(r'\bmReadMode\b', cpp)) != 4 + len(sites):
            raise Undecided('slice rule (read mode): enum %s, ScopedFlag %s, %d assignValue sites (>= 2 expected), %d ScopedFlag statements (>= 2 expected), '
                            'or mReadMode is used elsewhere in handler.cpp' % (bool(m_enum), bool(m_sf), len(sites), len(flags)))
        sf_text, n_del = re.subn(r'^[^\n]*= delete;\n', '', m_sf.group(0), flags=re.M)      # R-DELETE
        # R-ENUMQUAL: `ReadMode::x` names the enumerator x of the unscoped enum; the front end does not resolve the qualified form
        self.rm_sites = [re.sub(r'\bReadMode::(\w+)', r'\1', x.strip()) for x in sites]
        self.rm_flags = flags
        t = HARNESS_RM.replace('@SCOPEDFLAG@', sf_text).replace('@ENUM@', m_enum.group(0))
        t = t.replace('@SITES@', '\n'.join('   bool site_%d() const { return (%s); }' % (k, e) for k, e in enumerate(self.rm_sites)))
        t = t.replace('@SITE_ASSERTS@', '\n'.join('  __CPROVER_assert(h.site_%d() == (h.mReadMode != CV_Handler::commandLine), "assignValue call site %d: cardinality is ignored exactly while the words come from a file or the environment variable");' % (k, k)
                                                  for k in range(len(self.rm_sites))))
        t = t.replace('@NFLAGS@', str(len(flags))).replace('@FLAGS@', ', '.join('CV_Handler::' + f.split('::')[1] for f in flags))
        t = t.replace('@GUARDED@', ', '.join('true' if f in guards else 'false' for f in flags))
        self.rm_path = scratch.write('gen/h_c07_readmode.cpp', t)
        self.rm_report = {'assignValue_first_arguments': self.rm_sites, 'ScopedFlag_flags': flags, 'guarding_asserts': guards, 'R-DELETE lines dropped from ScopedFlag': n_del}


def make_build_rm(unit, h):
    def build(job, wd):
        core.goto_cc(['-nostdinc', '-I', core.STUBS, unit.rm_path, '--function', h, '-o', 'h.gb'], wd, 'read-mode slice TU')
        return os.path.join(wd, 'h.gb')
    return build


def jobs(unit, tier, only=None):
    out = []
    # (words, word length, quoting modes 0..QMODES)
    quick = [(1, 3, 3), (2, 2, 2), (2, 1, 3), (3, 1, 2)]     # measured 20-85 s each
    cfgs = quick if tier == 'quick' else quick + [(2, 2, 3), (3, 2, 0), (2, 3, 0), (1, 4, 3), (3, 1, 3), (3, 2, 2)]   # 1-20 min each
    for words, wlen, qm in cfgs:
        cap = words * (4 * wlen + 2) + words + 3
        out.append(Job('c07_roundtrip_w%d_l%d_q%d' % (words, wlen, qm), 'splitString(StringVec&, const std::string&)', 'split(join(quote(words))) == words (harness)',
                       as2a.make_build(unit, 'h_roundtrip', ['-DWORDS=%d' % words, '-DWLEN=%d' % wlen, '-DQMODES=%d' % qm, '-DSLEN=4',
                                                            '-DCV_STR_CAP=%d' % cap, '-DCV_VEC_CAP=%d' % (words + 2)]),
                       backend='sat', unwind=cap + 3, timeout=600 if tier == 'quick' else 3000, mode='harness', object_bits=10,
                       instance={'words': words, 'word_length': wlen, 'quoting_modes': qm, 'line_capacity': cap},
                       bounded='<= %d words of <= %d arbitrary non-NUL bytes' % (words, wlen), extra_flags=['--drop-unused-functions']))
    out.append(Job('c07_readmode_sites', 'Handler: every assignValue( ignore_cardinality, ...) call site (sliced argument expression)',
                   'call-site contract: ignore_cardinality == (read mode != command line), for every read mode (harness, loop-free, full domain)',
                   make_build_rm(unit, 'h_rm_sites'), backend='sat', timeout=120, mode='harness', instance={'sites': unit.rm_sites}))
    out.append(Job('c07_readmode_scope', 'common::ScopedFlag< uint8_t> on Handler::mReadMode (readArgumentFile / checkReadEnvVarArgs)',
                   'constructor sets exactly the source bit, destructor restores the previous mode, also when nested (harness, loop-free, full domain)',
                   make_build_rm(unit, 'h_rm_scope'), backend='sat', timeout=120, mode='harness', instance={'flags': unit.rm_flags}))
    if only:
        out = [j for j in out if only in j.name]
    return out


def replay(unit, job, o, inputs, scratch):
    if 'readmode' in job.name:
        return {'outcome': 'unavailable', 'detail': 'no native replay for the read-mode slice: the obligation is a call-site contract over all four read modes; '
                'the counterexample names the read mode (mReadMode) for which the sliced expression differs'}
    W, L = job.instance['words'], job.instance['word_length']

    def gi(k, d=0):
        v = inputs.get(k, d)
        return v if isinstance(v, int) else d
    k = max(1, min(gi('k', 1), W))
    a = ['roundtrip', 'lead=%d' % (gi('lead') & 1), 'trail=%d' % (gi('trail') & 1)]
    for w in range(k):
        n = max(1, min(gi('n[%dl]' % w, 1), L))
        a.append('w=%s:%d:%s:%d' % (''.join('%02x' % (gi('w[%dl][%dl]' % (w, i), 97) & 255) for i in range(n)), gi('mode[%dl]' % w),
                                    ''.join(str(gi('st[%dl][%dl]' % (w, i)) & 3) for i in range(n)), max(1, min(gi('sep[%dl]' % w, 1), 2))))
    return as2a.native_replay(scratch, a)


def replay_record(rec, scratch):
    a = rec.get('native_replay', {}).get('args')
    return as2a.native_replay(scratch, a['argv']) if a else {'outcome': 'unavailable', 'detail': 'no arguments'}


def evidence_info(unit, tier):
    return {
        'explanation': 'Read-mode slice (loop-free, all read modes): the first argument of every Handler call of assignValue() equals '
                       '(read mode != command line), and common::ScopedFlag on mReadMode sets exactly the source bit and restores the previous mode, also nested '
                       '(sliced each run: ' + str(unit.rm_report) + '). BOUNDED, first sentence of C07: for every list of <= WORDS words of 1..WLEN arbitrary non-NUL bytes, every quoting style '
                       '(escaped as the property states, whole word in single or double quotes, every character in its own style: bare, backslash, '
                       'quoted c), 1..2 separating blanks and optional leading/trailing blanks, the real splitString returns exactly the words. '
                       'That words from an argument file / the environment variable give the same destination values as argv words runs through the whole handler '
                       '(std::ifstream, getenv, TypedArg) and is not decided.',
        'trusted_base': ['CBMC 6.11 C++ front end on the shadow unit', 'stand-in <string> (inline flavour, capacity-bounded), <vector>', 'MiniSat'],
        'assumptions': ['bounded word count and word length (see instances)', 'file/environment half of the property: only the read-mode call-site contracts are decided; '
                        'TypedArgBase::assignValue honouring ignore_cardinality is assumed; equality of destination values across sources is not decided', 'termination not proved',
                        'read mode: invariant mReadMode is a subset of {file, envVar} (initially 0 by the default member initialiser, modified by ScopedFlag only - checked: no other use of mReadMode in handler.cpp)'],
        'not_under_contract': list(unit.shadow.dropped) + ['Handler::readArgumentFile / checkReadEnvVarArgs apart from their ScopedFlag statements', 'TypedArgBase::assignValue'],
    }
