"""C07 (first sentence only) -- splitting a command-line string inverts quoting.  Bounded, harness mode."""
from . import core, as2a
from .core import Job

Unit = as2a.Unit


def jobs(unit, tier, only=None):
    out = []
    # (words, word length, quoting modes 0..QMODES)
    quick = [(1, 3, 3), (2, 2, 2), (2, 1, 3), (3, 1, 2)]     # measured 20-85 s each
    cfgs = quick if tier == 'quick' else quick + [(2, 2, 3), (3, 2, 0), (2, 3, 0), (1, 4, 3), (3, 1, 3), (3, 2, 2)]   # 1-20 min each
    for words, wlen, qm in cfgs:
        cap = words * (4 * wlen + 2) + words + 3
        out.append(Job('c07_roundtrip_w%d_l%d_q%d' % (words, wlen, qm), 'splitString(StringVec&, const std::string&)', 'split(join(quote(words))) == words (harness)',
                       as2a.make_build(unit, 'h_roundtrip', ['-DWORDS=%d' % words, '-DWLEN=%d' % wlen, '-DQMODES=%d' % qm, '-DSLEN=4',
                                                            '-DCV_STR_CAP=%d' % cap, '-DCV_VEC_CAP=%d' % (words + 2)]),
                       backend='sat', unwind=cap + 3, timeout=600 if tier == 'quick' else 3000, mode='harness', object_bits=10,
                       instance={'words': words, 'word_length': wlen, 'quoting_modes': qm, 'line_capacity': cap},
                       bounded='<= %d words of <= %d arbitrary non-NUL bytes' % (words, wlen), extra_flags=['--drop-unused-functions']))
    if only:
        out = [j for j in out if only in j.name]
    return out


def replay(unit, job, o, inputs, scratch):
    W, L = job.instance['words'], job.instance['word_length']

    def gi(k, d=0):
        v = inputs.get(k, d)
        return v if isinstance(v, int) else d
    k = max(1, min(gi('k', 1), W))
    a = ['roundtrip', 'lead=%d' % (gi('lead') & 1), 'trail=%d' % (gi('trail') & 1)]
    for w in range(k):
        n = max(1, min(gi('n[%dl]' % w, 1), L))
        a.append('w=%s:%d:%s:%d' % (''.join('%02x' % (gi('w[%dl][%dl]' % (w, i), 97) & 255) for i in range(n)), gi('mode[%dl]' % w),
                                    ''.join(str(gi('st[%dl][%dl]' % (w, i)) & 3) for i in range(n)), max(1, min(gi('sep[%dl]' % w, 1), 2))))
    return as2a.native_replay(scratch, a)


def replay_record(rec, scratch):
    a = rec.get('native_replay', {}).get('args')
    return as2a.native_replay(scratch, a['argv']) if a else {'outcome': 'unavailable', 'detail': 'no arguments'}


def evidence_info(unit, tier):
    return {
        'explanation': 'BOUNDED, first sentence of C07 only: for every list of <= WORDS words of 1..WLEN arbitrary non-NUL bytes, every quoting style '
                       '(escaped as the property states, whole word in single or double quotes, every character in its own style: bare, backslash, '
                       'quoted c), 1..2 separating blanks and optional leading/trailing blanks, the real splitString returns exactly the words. '
                       'The second half of C07 (argument file / environment variable / override by the command line) runs through the whole handler '
                       '(std::ifstream, getenv) and is not applicable to this technique.',
        'trusted_base': ['CBMC 6.11 C++ front end on the shadow unit', 'stand-in <string> (inline flavour, capacity-bounded), <vector>', 'MiniSat'],
        'assumptions': ['bounded word count and word length (see instances)', 'file/environment half of the property not decided', 'termination not proved'],
        'not_under_contract': list(unit.shadow.dropped) + ['Handler::readArgumentFile / checkReadEnvVarArgs (second half of C07)'],
    }
