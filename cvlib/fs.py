"""FixedString<L> under contract: shared machinery for C10 (memory safety + representation
invariant) and C11 (content equals std::string cut at the capacity).  DESIGN.md section 4.

Everything is generated per capacity instance L: extern "C" wrappers (C++ TU, compiled together with
the shadow header), and one C contract function cw_<m>(self, args, ghosts) per method whose body is
the single call of the wrapper.  Pre-state is visible to the postconditions through ghost
parameters tied to the object in `requires` (no __CPROVER_old on calls, DESIGN 3.3).
"""
import os
import re

from . import core
from .core import Job, Rule, Undecided

HDR = 'celma/common/fixed_string.hpp'


# --------------------------------------------------------------------------------------------
# shadow extraction

DROP_SIG = re.compile(r'cv_nothing_dropped_by_signature')
DROP_BODY = re.compile(r'cv_nothing_dropped_by_body')
ACCESSOR_DECL = re.compile(r'^   (const_)?(reverse_)?iterator c?r?(begin|end)\(\)( const)? noexcept;\n$')
ACCESSOR_DEF = re.compile(r'FixedString< L>::c?r?(begin|end)\(\)\s*(const)?\s*(noexcept)?\s*$')


def extract(shadow):
    """fixed_string.hpp -> shadow; returns list of dropped members (not under contract)."""
    dropped = []
    tinst_s = []

    def pre(s):
        ci = s.index('template< size_t L> class FixedString')
        ce = s.index('}; // FixedString')
        head, cls, rest = s[:ci], s[ci:ce], s[ce:]
        # commented-out members (block comments at line start) would be cut in half by the member-wise splitting
        cls = re.sub(r'(?ms)^/\*\n.*?^\*/\n', '', cls)
        rest = re.sub(r'(?ms)^/\*\n.*?^\*/\n', '', rest)

        def drop_decl(m):
            d = m.group(0)
            if ACCESSOR_DECL.search(d):
                return d
            if re.search(r'cv_nothing_dropped', d):
                dropped.append('decl: ' + ' '.join(d.split()))
                return ''
            if 'template< size_t S>' in d:
                # T-INST-S: member templates of a class template are not supported by the front end ("symbol 'S' is unknown");
                # the cross-capacity members are textually instantiated with S := CV_S (a capacity chosen per proof instance)
                tinst_s.append('decl')
                d = re.sub(r'template< size_t S>\s*', '', d).replace('FixedString< S>', 'FixedString< CV_S>')
                # inside FixedString< CV_S> itself these two would be the copy constructor / copy assignment (which the real class
                # defaults and the front end generates): they get a distinguishable signature (tag parameter / callable name)
                d = d.replace('FixedString( const FixedString< CV_S>& other)', 'FixedString( const FixedString< CV_S>& other, int /* T-INST-S tag */)')
                d = d.replace('operator =( const FixedString< CV_S>& str)', 'cv_op_assign( const FixedString< CV_S>& str)')
                return d
            return d
        # T-INST of the iterator templates (see extract_iterators).  The four alias declarations are dropped and every use is
        # spelled with the instantiated class name: an in-class typedef of a class type is laid out as a data member by the
        # front end (measured: sizeof grows by the size of the four iterator objects)
        cls, n_alias = re.subn(r'^   using (const_)?(reverse_)?iterator =\s*detail::FixedString(Reverse)?Iterator<[^;]*;\n', '', cls, flags=re.M)
        if n_alias != 4:
            raise Undecided('extraction: expected 4 iterator aliases in FixedString, found %d' % n_alias)
        cls = re.sub(r'^   (?!//|/\*|using|typedef|private:|public:)[^;{}]*?;\n', drop_decl, cls, flags=re.M)
        parts = re.split(r'(?m)^(?=template< size_t L>)', rest)
        keep = []
        for p in parts:
            if not p.startswith('template< size_t L>'):
                keep.append(p)
                continue
            sig = p[:p.index('{')] if '{' in p else p
            if ACCESSOR_DEF.search(sig):
                keep.append(p)
                continue
            if DROP_SIG.search(sig) or DROP_BODY.search(p):
                dropped.append('def: ' + ' '.join(sig.split()))
                continue
            if 'template< size_t S>' in sig:
                tinst_s.append('def')
                p = p.replace('template< size_t L> template< size_t S>', 'template< size_t L>', 1).replace('FixedString< S>', 'FixedString< CV_S>')
                p = re.sub(r'\bS\b', 'CV_S', p)   # any other use of the template parameter in the body
                p = p.replace('FixedString< L>::FixedString( const FixedString< CV_S>& other)', 'FixedString< L>::FixedString( const FixedString< CV_S>& other, int)')
                p = p.replace('FixedString< L>::operator =( const FixedString< CV_S>& str)', 'FixedString< L>::cv_op_assign( const FixedString< CV_S>& str)')
            keep.append(p)
        def itname(m):
            return 'detail::FixedString%sIterator' % ('Reverse' if m.group(2) else '')
        body = ''.join(keep)
        body, n1 = re.subn(r'typename FixedString< L>::(const_)?(reverse_)?iterator', itname, body)
        # every remaining use of the four alias names (declarations, parameters, temporaries) is spelled with the class name
        cls, n2 = re.subn(r'(?<![:\w])(const_)?(reverse_)?iterator\b', itname, cls)
        body, n3 = re.subn(r'(?<![:\w])(const_)?(reverse_)?iterator\b', itname, body)
        # R-FRIENDOP: the iterator difference is a friend function defined inside the iterator class; the front end does not
        # find it by argument-dependent lookup, the call is spelled out (same function, same arguments)
        # The operands are recognised per member: parameters and locals of the iterator type (also `auto` locals initialised from
        # begin()/end()), and the begin()/end() accessor calls
        n4 = 0
        pieces = re.split(r'(?m)^(?=template< size_t L>)', body)
        for k, piece in enumerate(pieces):
            names = set(re.findall(r'FixedStringIterator\s+(\w+)\s*[,)=;(]', piece))
            names |= set(re.findall(r'\bauto(?:\s+const)?\s+(\w+)\s*=\s*c?(?:begin|end)\(\)', piece))
            names.discard('operator')
            if not names:
                continue
            opnd = r'(?:%s|c?begin\(\)|c?end\(\))' % '|'.join(sorted(names))
            pieces[k], n = re.subn(r'(?<![\w.>])(%s) - (%s)(?=\s*[;,)])' % (opnd, opnd), r'detail::FixedStringIterator::cv_diff( \1, \2)', piece)
            n4 += n
        body = ''.join(pieces)
        if not (tinst_s.count('decl') == tinst_s.count('def') and 14 <= tinst_s.count('def') <= 22):
            raise Undecided('extraction: T-INST-S fired on %d declarations / %d definitions (expected 17 / 17)' % (tinst_s.count('decl'), tinst_s.count('def')))
        if not 10 <= n4 <= 16:
            raise Undecided('extraction: R-FRIENDOP fired %d times (expected about 13)' % n4)
        if not (12 <= n1 <= 24 and 40 <= n2 <= 70 and 25 <= n3 <= 60):
            raise Undecided('extraction: iterator type-name rewriting fired %d / %d / %d times (expected about 16 / 55 / 33)' % (n1, n2, n3))
        return head + cls + body

    rules = [
        Rule('R-NNS-open', r'^namespace celma::common \{', 'namespace celma { namespace common {', 1),
        Rule('R-NNS-close', r'^\} // namespace celma::common', '}} // namespace celma::common', 1),
        Rule('drop-includes', r'^#include (<iostream>|"celma/common/length_type.hpp"|'
             r'"celma/common/detail/fixed_string_iterator.hpp"|"celma/common/detail/fixed_string_reverse_iterator.hpp")\n', '', 4),
        Rule('CV_SIZE_TYPE', r'using size_type = typename LengthType< L>::type;', 'typedef CV_SIZE_TYPE size_type;', 1),
        # R-CONDREF: symex aborts (address_arithmetic invariant) on a conditional expression of reference type whose arm is a call
        # with class-type arguments; the one such return statement is written as if/return (same evaluation order, same result)
        Rule('R-CONDREF', r'return \(str == nullptr\) \? \*this : (replace\( first, last, str, std::strlen\( str\)\));', r'if (str == nullptr) return *this; return \1;', 1),
        # Sub-object bounds (instrumentation, no change of behaviour): CBMC's pointer and bounds checks are object-granular -- an
        # access that leaves mString[ L + 1] but stays inside the FixedString object (i.e. hits mLength) is no obligation of
        # its own.  Every element access gets an index obligation, every address computation a one-past obligation, and the
        # mem* calls go through forwarding functions that check the byte range against the buffer of the registered objects.
        Rule('R-IDX', r'(?<![&\w.])mString\[ (?!L \+ 1\])([^\]]*)\]', r'mString[ cv_idx( \1, L + 1)]', (30, 60)),
        Rule('R-ADR', r'&mString\[ ([^\]]*)\]', r'&mString[ cv_adr( \1, L + 1)]', (25, 50)),
        Rule('R-STRLEN', r'std::strlen\(', '::cv_strlen(', (15, 30)),
        Rule('R-MEMSUB', r'(?:std)?::(memcpy|memmove|memset|memcmp|vsnprintf)\(', r'::cv_\1(', (30, 50)),
        Rule('R-ACCESS', r'^private:', 'public:', 1),
        Rule('R-THROW', r'throw std::out_of_range\([^;]*\);', 'CV_THROW( 1);', 2, flags=re.M | re.S),
        # T-INST: the two-parameter free operator templates cannot be instantiated by the front end;
        # bind S := CV_S (the second capacity of the proof instance) and give them a callable name (bodies untouched)
        Rule('T-INST-opeq', r'template< size_t L, size_t S>\n   bool operator ==\( const FixedString< L>& lhs, const FixedString< S>& rhs\)(.*?\n\} // operator ==)',
             lambda m: 'template< size_t L>\n   bool cv_op_eq( const FixedString< L>& lhs, const FixedString< CV_S>& rhs)' + re.sub(r'\bS\b', 'CV_S', m.group(1)), 1, flags=re.M | re.S),
        Rule('T-INST-opne', r'template< size_t L, size_t S>\n   bool operator !=\( const FixedString< L>& lhs, const FixedString< S>& rhs\)(.*?\n\} // operator !=)',
             lambda m: 'template< size_t L>\n   bool cv_op_ne( const FixedString< L>& lhs, const FixedString< CV_S>& rhs)' + re.sub(r'\bS\b', 'CV_S', m.group(1)), 1, flags=re.M | re.S),
        # const iterators: both instantiations are bound to the same class (the front end loses const on class types)
        Rule('R-CONST-iter', r'(return detail::FixedString(?:Reverse)?Iterator\( (?:true, )?)this\);(\n\} // FixedString< L>::c?r?(?:begin|end)\n)', r'\1const_cast< FixedString*>( this));\2', 12),
        Rule('T-INST-fwd', r'^template< size_t L> class FixedString\n', 'namespace detail { class FixedStringIterator; class FixedStringReverseIterator; }\ntemplate< size_t L> class FixedString\n', 1),
        Rule('T-INST-include-late', r'^// =====  END OF fixed_string.hpp  =====', 'typedef celma::common::FixedString< CV_L> CV_FS;\n#include "celma/common/detail/fixed_string_iterator.hpp"\n'
             '#include "celma/common/detail/fixed_string_reverse_iterator.hpp"\n// =====  END OF fixed_string.hpp  =====', 1),
        # the move constructor (rvalue reference) makes the front end abort as soon as ANY constructor is instantiated
        Rule('drop-move-ctor-decl', r'^   FixedString\( FixedString&& other\) noexcept;\n', '', 1),
        Rule('drop-move-ctor-def', r'^template< size_t L> FixedString< L>::FixedString\( FixedString&& other\) noexcept:.*?^\} // FixedString< L>::FixedString\n', '', 1, flags=re.M | re.S),
        # R-NSDMI: `char mString[ L + 1] = { '\\0' }` (zero-filled array) is ignored by the front end; the two constructors under
        # contract get the equivalent zero fill as first statement (mLength is initialised by their mem-initialiser lists)
        Rule('R-NSDMI-ctor', r'(^template< size_t L> FixedString< L>::FixedString\( const (?:char\* str|std::string& str)\)\s*noexcept:\s*mLength\([^\n]*\)\n\{\n)',
             r'\1   for (size_t cv_i = 0; cv_i <= L; ++cv_i) mString[ cv_i] = 0;   // R-NSDMI\n', 2),
        Rule('R-NSDMI-ctor-cross', r'(^template< size_t L>\n   FixedString< L>::FixedString\( const FixedString< CV_S>& other, int\) noexcept:\s*mLength\([^\n]*\)\n\{\n)',
             r'\1   for (size_t cv_i = 0; cv_i <= L; ++cv_i) mString[ cv_i] = 0;   // R-NSDMI\n', 1),
        Rule('R-DEFAULT-ctors', r'^   (FixedString\(\)|FixedString\( const FixedString&\)|~FixedString\(\)) = default;\n', '', 3),
        Rule('drop-ostream', r'^template< size_t L>\n   std::ostream& operator <<\(.*?\n\} // operator <<\n', '', 1,
             flags=re.M | re.S),
    ]
    path = shadow.extract(HDR, rules, pre=pre)
    n_decl = sum(1 for d in dropped if d.startswith('decl'))
    n_def = sum(1 for d in dropped if d.startswith('def'))
    if not (0 <= n_decl <= 12 and n_decl == n_def):
        raise Undecided('extraction: dropped %d declarations / %d definitions of FixedString, expected about 4/4'
                        % (n_decl, n_def))
    shadow.dropped += dropped
    extract_iterators(shadow)
    return path


def extract_iterators(shadow):
    """The two iterator class templates, textually instantiated with T := char, F := FixedString< CV_L> (the front end aborts
    on out-of-class constructor definitions of class templates)."""
    for name, cls in (('fixed_string_iterator', 'FixedStringIterator'), ('fixed_string_reverse_iterator', 'FixedStringReverseIterator')):
        shadow.extract('celma/common/detail/%s.hpp' % name, [
            Rule('R-NNS3-open', r'^namespace (\w+)::(\w+)::(\w+) \{', r'namespace \1 { namespace \2 { namespace \3 {', 1),
            Rule('R-NNS3-close', r'^\} // namespace \w+::\w+::\w+', '}}}', 1),
            Rule('T-INST-tmpl', r'template< typename T, typename F>\s*', '', (18, 22)),
            Rule('T-INST-cls', r'%s< T, F>' % cls, cls, (30, 70)),
            Rule('T-INST-typename', r'typename (%s::reference)' % cls, r'\1', 2),
            Rule('T-INST-T', r'\bT&', 'char&', 1),
            Rule('T-INST-F', r'\bF\*', 'CV_FS*', (4, 8)),
            Rule('drop-base', r'class %s final:\n   public std::iterator< std::random_access_iterator_tag, void\*>' % cls, 'class %s' % cls, 1),
            Rule('R-ALIAS', r'^(\s*)using (\w+) = ([^;]+);', r'\1typedef \3 \2;', 1),
            Rule('R-DEFAULT', r'^[^\n]*= default;\n', '', 6),
            Rule('R-CONSTEXPR', r'static constexpr size_t  EndValue = std::numeric_limits< uint64_t>::max\(\);', 'static const size_t  EndValue = 18446744073709551615UL;', 1),
            # R-NSDMI: the default member initialisers (mpObject = nullptr, mIndex = EndValue) are ignored by the front end; the two
            # constructors that rely on `mIndex = EndValue` get it as mem-initialiser (the default constructor is not under contract)
            Rule('R-NSDMI-ctor', r'(Iterator\( (?:bool, )?CV_FS\* obj\):\n\s*mpObject\( obj\))\n', r'\1, mIndex( EndValue)\n', 2),
            Rule('R-NSDMI-drop', r'^(   (?:CV_FS\*|size_t)\s+m\w+) = [^;]+;', r'\1;', 2),
            Rule('R-AUTO-self', r'auto  copy\( \*this\);', cls + '  copy( *this);', 2),
            # R-FRIENDOP: the hidden friend becomes a static member with a callable name (same parameters, same body)
            Rule('R-FRIENDOP', r'friend size_t operator -\(', 'static size_t cv_diff(', 1),
            Rule('R-ACCESS', r'^private:', 'public:', 1),
            Rule('R-THROW', r'throw std::(invalid_argument|range_error)\([^;]*\);', 'CV_THROW_IT( 1);', (3, 6), flags=re.M | re.S),
            Rule('R-PREPOST-pre', r'\( std::prefix\)', '()', 2), Rule('R-PREPOST-post', r'\( std::postfix\)', '( int)', 2)])
    shadow.scratch.write('shadow/celma/common/pre_postfix.hpp', '#pragma once\nnamespace std { typedef void prefix; typedef int postfix; }\n')
    shadow.dropped += ['FixedStringIterator() / FixedStringReverseIterator() default constructors']


# --------------------------------------------------------------------------------------------
# method table
#
# args: list of (kind, name)   z size_t | c char | s C-string | b readable buffer of `blen` bytes |
#       S std::string (pointer + length) | F other FixedString<L> | d writable dest of `blen` bytes
# ret:  r (FixedString&: wrapper returns 1 iff the reference is *this) | v void | z | i | B bool | c
# spec (C11): dict with dom, and for mutators newlen/expect, for observers `result`

class M:
    def __init__(self, mid, call, ret, args, mut, blen=None, spec=None, dom10=None, doc=''):
        self.id, self.call, self.ret, self.args, self.mut = mid, call, ret, args, mut
        self.blen = blen          # name of the size_t argument giving the buffer length
        self.spec = spec          # C11 spec or None (then only C10 applies)
        self.dom10 = dom10        # documented precondition that holds even for C10 (e.g. operator[])
        self.doc = doc
        self.ctor = False
        self.ens10 = []           # extra postconditions that belong to C10 (e.g. the iterator invariant)
        self.raw = None           # C++ body of the wrapper when it is not a plain member call


def _ins(cnt, piece):
    return dict(dom='index <= g_len',
                newlen='((%s) >= L - g_len ? L : g_len + (%s))' % (cnt, cnt),
                expect='((k) < index ? OLD(k) : ((k) - index < (%s) ? %s : OLD((k) - (%s))))' % (cnt, piece.replace('J', '((k) - index)'), cnt))


def _app(cnt, piece):
    return dict(dom='1',
                newlen='((%s) >= L - g_len ? L : g_len + (%s))' % (cnt, cnt),
                expect='((k) < g_len ? OLD(k) : %s)' % piece.replace('J', '((k) - g_len)'))


def _rep(pos, c1, c2, piece, dom='1'):
    C1 = '((%s) > g_len - (%s) ? g_len - (%s) : (%s))' % (c1, pos, pos, c1)
    return dict(dom='(%s) <= g_len && (%s)' % (pos, dom),
                newlen='((%s) >= L - (g_len - %s) ? L : g_len - %s + (%s))' % (c2, C1, C1, c2),
                expect='((k) < (%s) ? OLD(k) : ((k) - (%s) < (%s) ? %s : OLD((k) - (%s) + %s)))'
                       % (pos, pos, c2, piece.replace('J', '((k) - (%s))' % pos), c2, C1))


def _asg(n, piece):
    return dict(dom='1', newlen='((%s) > L ? L : (%s))' % (n, n), expect=piece.replace('J', '(k)'))


MIN = lambda a, b: '((%s) < (%s) ? (%s) : (%s))' % (a, b, a, b)

METHODS = [
    # ---- mutators
    M('insert_cc', 'insert( index, count, ch)', 'r', [('z', 'index'), ('z', 'count'), ('c', 'ch')], True,
      spec=_ins('count', 'ch')),
    M('insert_sn', 'insert( index, str, count)', 'r', [('z', 'index'), ('b', 'str'), ('z', 'count')], True, blen='count',
      spec=_ins('count', 'SRC(str,J)')),
    M('insert_s', 'insert( index, str)', 'r', [('z', 'index'), ('s', 'str')], True, spec=_ins('str_n', 'SRC(str,J)')),
    M('insert_S', 'insert( index, str)', 'r', [('z', 'index'), ('S', 'str')], True, spec=_ins('str_n', 'SRC(str,J)')),
    M('insert_Spc', 'insert( index, str, index_str, count)', 'r', [('z', 'index'), ('S', 'str'), ('z', 'index_str'), ('z', 'count')], True,
      spec=dict(_ins(MIN('count', 'str_n - index_str'), 'SRC(str,index_str + J)'), dom='index <= g_len && index_str <= str_n'),
      dom10='index_str <= str_n'),
    M('erase', 'erase( index, count)', 'r', [('z', 'index'), ('z', 'count')], True,
      spec=dict(dom='index <= g_len', newlen='(g_len - ' + MIN('count', 'g_len - index') + ')',
                expect='((k) < index ? OLD(k) : OLD((k) + ' + MIN('count', 'g_len - index') + '))')),
    M('push_back', 'push_back( ch)', 'r', [('c', 'ch')], True, spec=_app('1', 'ch')),
    M('pop_back', 'pop_back()', 'r', [], True, spec=dict(dom='g_len > 0', newlen='(g_len - 1)', expect='OLD(k)')),
    M('append_cc', 'append( count, ch)', 'r', [('z', 'count'), ('c', 'ch')], True, spec=_app('count', 'ch')),
    M('append_S', 'append( str)', 'r', [('S', 'str')], True, spec=_app('str_n', 'SRC(str,J)')),
    M('append_Spc', 'append( str, pos, count)', 'r', [('S', 'str'), ('z', 'pos'), ('z', 'count')], True,
      spec=dict(_app(MIN('count', 'str_n - pos'), 'SRC(str,pos + J)'), dom='pos <= str_n'), dom10='pos <= str_n'),
    M('append_sn', 'append( str, count)', 'r', [('s', 'str'), ('z', 'count')], True,
      spec=dict(_app('count', 'SRC(str,J)'), dom='count <= str_n')),
    M('append_s', 'append( str)', 'r', [('s', 'str')], True, spec=_app('str_n', 'SRC(str,J)')),
    M('pluseq_S', 'operator +=( str)', 'r', [('S', 'str')], True, spec=_app('str_n', 'SRC(str,J)')),
    M('pluseq_s', 'operator +=( str)', 'r', [('s', 'str')], True, spec=_app('str_n', 'SRC(str,J)')),
    M('pluseq_c', 'operator +=( ch)', 'r', [('c', 'ch')], True, spec=_app('1', 'ch')),
    M('replace_pcS', 'replace( pos, count, str)', 'r', [('z', 'pos'), ('z', 'count'), ('S', 'str')], True,
      spec=_rep('pos', 'count', 'str_n', 'SRC(str,J)')),
    M('replace_pcSpc', 'replace( pos, count, str, pos2, count2)', 'r',
      [('z', 'pos'), ('z', 'count'), ('S', 'str'), ('z', 'pos2'), ('z', 'count2')], True,
      spec=_rep('pos', 'count', MIN('count2', 'str_n - pos2'), 'SRC(str,pos2 + J)', dom='pos2 <= str_n'), dom10='pos2 <= str_n'),
    M('replace_pcs', 'replace( pos, count, str)', 'r', [('z', 'pos'), ('z', 'count'), ('s', 'str')], True,
      spec=_rep('pos', 'count', 'str_n', 'SRC(str,J)')),
    M('replace_pcsn', 'replace( pos, count, str, count2)', 'r', [('z', 'pos'), ('z', 'count'), ('s', 'str'), ('z', 'count2')], True,
      spec=_rep('pos', 'count', 'count2', 'SRC(str,J)', dom='count2 <= str_n')),
    M('replace_pccc', 'replace( pos, count, count2, ch)', 'r', [('z', 'pos'), ('z', 'count'), ('z', 'count2'), ('c', 'ch')], True,
      spec=_rep('pos', 'count', 'count2', 'ch')),
    M('assign_s', 'assign( str)', 'r', [('s', 'str')], True, spec=_asg('str_n', 'SRC(str,J)')),
    M('assign_S', 'assign( str)', 'r', [('S', 'str')], True, spec=_asg('str_n', 'SRC(str,J)')),
    M('opassign_s', 'operator =( str)', 'r', [('s', 'str')], True, spec=_asg('str_n', 'SRC(str,J)')),
    M('opassign_S', 'operator =( str)', 'r', [('S', 'str')], True, spec=_asg('str_n', 'SRC(str,J)')),
    M('clear', 'clear()', 'v', [], True, spec=dict(dom='1', newlen='0', expect='0')),
]

OBSERVERS = []   # filled in by fs_obs.py (C11 observers)


# --------------------------------------------------------------------------------------------
# text generation

SUBOBJ = [
    '#include <cstring>', '#include <cstdio>',
    '// sub-object bounds (R-IDX / R-ADR / R-MEMSUB): obligations CBMC does not generate itself (its checks are object-granular)',
    'extern "C" { const void* cv_reg_obj[3]; size_t cv_reg_cap[3]; }   /* the FixedString objects of this call and their capacities */',
    'inline size_t cv_idx( size_t i, size_t n) { __CPROVER_assert(i < n, "sub-object bound: index inside mString[ L + 1]"); return i; }',
    'inline size_t cv_adr( size_t i, size_t n) { __CPROVER_assert(i <= n, "sub-object bound: address inside or one past mString[ L + 1]"); return i; }',
    'inline void cv_sub( const void* p, size_t n) { for (int k = 0; k < 3; ++k) if (cv_reg_obj[k] != 0 && __CPROVER_same_object(p, cv_reg_obj[k]))',
    '  __CPROVER_assert(__CPROVER_POINTER_OFFSET(p) + n <= cv_reg_cap[k] + 1, "sub-object bound: mem* byte range stays inside mString[ L + 1]"); }',
    'inline void* cv_memcpy( void* d, const void* s, size_t n) { cv_sub( d, n); cv_sub( s, n); return ::memcpy( d, s, n); }',
    'inline void* cv_memmove( void* d, const void* s, size_t n) { cv_sub( d, n); cv_sub( s, n); return ::memmove( d, s, n); }',
    'inline void* cv_memset( void* d, int c, size_t n) { cv_sub( d, n); return ::memset( d, c, n); }',
    'inline int cv_memcmp( const void* a, const void* b, size_t n) { cv_sub( a, n); cv_sub( b, n); return ::memcmp( a, b, n); }',
    '/* strlen by contract for the one registered source string (R-STRLEN): a C string of any length whose bytes behind the first K do not exist */',
    'extern "C" { const char* cv_src_ptr; size_t cv_src_len; }',
    'inline size_t cv_strlen( const char* p) { return (cv_src_ptr != 0 && p == cv_src_ptr) ? cv_src_len : ::strlen( p); }',
    'inline int cv_vsnprintf( char* s, size_t n, const char* f, va_list ap) { cv_sub( s, n); return std::vsnprintf( s, n, f, ap); }',
]


def wrappers_text(L, methods, S2=None, K=None):
    S2 = S2 or L
    # sources of any length need the first L+1 bytes of the source materialised: only where K > L (not in the light 255/256 instances)
    def is_long(m):
        return getattr(m, 'long_src', False) and K is not None and K > L
    o = ['// generated: extern "C" wrappers and state accessors for FixedString<%d> (compiled with the shadow header)' % L,
         '#include <cstdint>', '#include <cstring>', '#include <string>',
         'extern "C" int cv_thrown;',
         '#define CV_THROW(k) { cv_thrown = (k); return mString[ 0]; }',
         '#define CV_THROW_IT(k) { cv_thrown = (k); __CPROVER_assume(0); }   /* a throw in an iterator ends the call */',
         '#define CV_L %d' % L, '#define CV_S %d   /* capacity of the other operand of the cross-capacity members (T-INST-S) */' % S2,
         ] + SUBOBJ + [
         '#include <stdexcept>', '#include <iterator>', '#include <limits>', '#include "celma/common/pre_postfix.hpp"',
         '#include "%s"' % HDR,
         'typedef celma::common::FixedString< CV_S> FS2;',
         'typedef CV_FS FS;   /* = celma::common::FixedString< CV_L>, instantiated once at the end of the shadow header */',
         '#define CV_IT(o, i) ((i) == 18446744073709551615UL ? (o)->cend() : celma::common::detail::FixedStringIterator( (o), (i)))',
         'extern "C" {',
         'size_t w_sizeof() { return sizeof(FS); }',
         'size_t w_length(const void* self) { return static_cast<const FS*>(self)->mLength; }',
         'char w_char_at(const void* self, size_t i) { return static_cast<const FS*>(self)->mString[i]; }',
         'size_t w_sizeof2() { return sizeof(FS2); }',
         'size_t w_length2(const void* p) { return static_cast<const FS2*>(p)->mLength; }',
         'char w_char_at2(const void* p, size_t i) { return static_cast<const FS2*>(p)->mString[i]; }',
         'size_t w_api_length(const void* self) { return static_cast<const FS*>(self)->length(); }',
         'int w_api_empty(const void* self) { return static_cast<const FS*>(self)->empty(); }',
         'char w_api_cstr_at(const void* self, size_t i) { return static_cast<const FS*>(self)->c_str()[i]; }']
    for m in methods:
        params, pre = ['void* self'], ['cv_reg_obj[0] = self; cv_reg_cap[0] = CV_L; cv_reg_obj[1] = 0; cv_reg_obj[2] = 0; cv_src_ptr = 0;',
                                       '__CPROVER_assert(__CPROVER_POINTER_OFFSET(&static_cast<FS*>(self)->mString[0]) == __CPROVER_POINTER_OFFSET(self), "layout witness: mString is at offset 0");']
        for kind, name in m.args:
            if kind == 'z':
                params.append('size_t ' + name)
            elif kind == 'c':
                params.append('char ' + name)
            elif kind in ('s', 'b'):
                params.append('const char* ' + name)
                if kind == 's' and is_long(m):
                    # a C string of ANY length by contract of strlen (ghost length, R-STRLEN): only its first min(n, K) + 1 bytes exist
                    params.append('size_t %s_n' % name)
                    pre.append('cv_src_ptr = %s; cv_src_len = %s_n;' % (name, name))
            elif kind == 'd':
                params.append('char* ' + name)
            elif kind == 'S':
                params += ['const char* %s_p' % name, 'size_t %s_n' % name]
                if is_long(m):
                    # a std::string of ANY length of which only the first min(n, K) + 1 bytes exist (view, no copy): FixedString never
                    # needs more of a source than its capacity; a read behind them is an obligation
                    pre.append('std::string %s( %s_p, %s_n, std::string::cv_view());' % (name, name, name))
                else:
                    pre.append('std::string %s( %s_p, %s_n);' % (name, name, name))
            elif kind == 'F':
                params.append('void* %s_p' % name)
                pre.append('FS& %s = *static_cast<FS*>(%s_p); cv_reg_obj[1] = %s_p; cv_reg_cap[1] = CV_L;' % (name, name, name))
            elif kind == 'G':
                params.append('void* %s_p' % name)
                pre.append('FS2& %s = *static_cast<FS2*>(%s_p); cv_reg_obj[2] = %s_p; cv_reg_cap[2] = CV_S;' % (name, name, name))
        call = 'static_cast<FS*>(self)->' + m.call
        if m.raw:
            if m.ret == 'str':
                params += ['char* out', 'size_t out_cap']
            o.append('%s w_%s(%s) { %s %s }' % ({'v': 'void', 'B': 'int', 'z': 'size_t', 'str': 'size_t', 'c': 'char', 'r': 'int'}[m.ret], m.id, ', '.join(params), ' '.join(pre), m.raw.replace('{L}', str(L))))
            continue
        if m.ret == 'r':
            body = ' '.join(pre) + ' FS& cv_r = %s; return &cv_r == static_cast<FS*>(self);' % call
            rt = 'int'
        elif m.ret == 'v':
            body, rt = ' '.join(pre) + ' %s;' % call, 'void'
        elif m.ret == 'str':
            params += ['char* out', 'size_t out_cap']
            body = (' '.join(pre) + ' std::string cv_r = %s; size_t n = cv_r.length(); '
                    'for (size_t i = 0; i < n && i < out_cap; ++i) out[i] = cv_r.c_str()[i]; return n;' % call)
            rt = 'size_t'
        elif m.ret == 'cT':   # char& that may throw: reports thrown flag through *thrown
            params += ['int* thrown']
            body = ' '.join(pre) + ' cv_thrown = 0; char cv_c = %s; *thrown = cv_thrown; return cv_c;' % call
            rt = 'char'
        else:
            rt = {'z': 'size_t', 'i': 'int', 'B': 'int', 'c': 'char'}[m.ret]
            body = ' '.join(pre) + ' return %s;' % call
        o.append('%s w_%s(%s) { %s }' % (rt, m.id, ', '.join(params), body))
    o.append('}')
    return '\n'.join(o) + '\n'


def cond_chain(prefix, n, idx):
    """(idx)==0?p0:(idx)==1?p1:...:p{n-1}  (value for idx >= n-1 is p{n-1}; never used there)"""
    if n == 0:
        return '0'
    s = ''
    for i in range(n - 1):
        s += '(%s)==%d?%s%d:' % (idx, i, prefix, i)
    return '(' + s + '%s%d)' % (prefix, n - 1)


def prelude_c(L, K, objsz_macro=True, light=False, S2=None):
    LG = 0 if light else L
    S2 = S2 or L
    g = ['#include <stddef.h>', '#include <stdint.h>',
         '#define L %dul' % L, '#define K %dul' % K,
         'size_t w_sizeof(void); size_t w_length(const void*); char w_char_at(const void*, size_t);',
         'size_t w_api_length(const void*); int w_api_empty(const void*); char w_api_cstr_at(const void*, size_t);',
         'int cv_thrown; extern const void* cv_reg_obj[3]; extern size_t cv_reg_cap[3]; extern const char* cv_src_ptr; extern size_t cv_src_len;',
         '/* representation invariant (C10): length <= capacity and NUL at the length */',
         '/* the last buffer byte is only ever written as terminator: part of the invariant (established by the member',
         '   initialiser, preserved by every method -- checked as postcondition) so that pre-states are reachable ones */',
         '#define WF(p) (w_length(p) <= L && w_char_at(p, w_length(p)) == 0 && w_char_at(p, L) == 0)',
         '#define S2 %dul   /* capacity of the other operand of the cross-capacity members */' % S2,
         'size_t w_sizeof2(void); size_t w_length2(const void*); char w_char_at2(const void*, size_t);',
         '#define WF2(p) (w_length2(p) <= S2 && w_char_at2(p, w_length2(p)) == 0 && w_char_at2(p, S2) == 0)',
         '#define GHOSTS size_t g_len' + ''.join(', char g%d' % i for i in range(LG)),
         '#define GHOST_ARGS g_len' + ''.join(', g%d' % i for i in range(LG)),
         '#define TIE(p) (w_length(p) == g_len' + ''.join(' && w_char_at(p,%d) == g%d' % (i, i) for i in range(LG)) + ')',
         '#define OLD(i) ' + cond_chain('g', LG, 'i'),
         '/* "no NUL stored": old content NUL-free */',
         '#define OLD_NOZ (1' + ''.join(' && (%d >= g_len || g%d != 0)' % (i, i) for i in range(LG)) + ')',
         '#define NEW_NOZ(p) (1' + ''.join(' && (%d >= w_length(p) || w_char_at(p,%d) != 0)' % (i, i) for i in range(LG)) + ')',
         '#define SRC(name,j) SRC_##name(j)',
         '#define R __CPROVER_return_value',
         '#define CANARY __CPROVER_assert(0, "CV_CANARY")']
    return '\n'.join(g) + '\n'


def src_ghost_decl(name, K):
    return ''.join(', char %s_%d' % (name, j) for j in range(K))


def contract_text(m, L, K, c11, extra_req=(), light=False, S2=None):
    LG = 0 if light else L
    S2 = S2 or L
    SG = 0 if light else S2
    """The C contract function + harness for one method."""
    params = ['void* self']
    ghosts = []          # extra ghost params (source contents, lengths)
    req, noz, defs, hdecl, hargs = [], [], [], [], ['self']
    long_src = getattr(m, 'long_src', False) and K > L
    wargs = ['self']
    for kind, name in m.args:
        if kind == 'z':
            params.append('size_t ' + name); hdecl.append('size_t %s;' % name); hargs.append(name); wargs.append(name)
        elif kind == 'c':
            params.append('char ' + name); hdecl.append('char %s;' % name); hargs.append(name); wargs.append(name)
            noz.append('%s != 0' % name)
        elif kind in ('s', 'b', 'S'):
            params.append('const char* ' + name); hdecl.append('const char* %s;' % name); hargs.append(name)
            if kind == 'S':
                params.append('size_t %s_n' % name); hdecl.append('size_t %s_n;' % name); hargs.append(name + '_n')
                wargs += [name, name + '_n']
                n = name + '_n'
                if long_src:
                    req.append('%s <= 4611686018427387903ul /* max_size() */ && __CPROVER_is_fresh(%s, (%s <= K ? %s : K) + 1) && (%s > K || %s[%s] == 0)' % (n, name, n, n, n, name, n))
                else:
                    req.append('%s <= K && __CPROVER_is_fresh(%s, %s + 1)' % (n, name, n))
            elif kind == 's':
                ghosts.append('size_t %s_n' % name); hdecl.append('size_t %s_n;' % name)
                wargs.append(name)
                n = name + '_n'
                if long_src:
                    wargs.append(n)
                    req.append('%s <= 4611686018427387903ul && __CPROVER_is_fresh(%s, (%s <= K ? %s : K) + 1) && (%s > K || %s[%s] == 0)' % (n, name, n, n, n, name, n))
                else:
                    req.append('%s <= K && __CPROVER_is_fresh(%s, %s + 1) && %s[%s] == 0' % (n, name, n, name, n))
            else:
                wargs.append(name)
                n = m.blen
                req.append('%s <= K && __CPROVER_is_fresh(%s, %s)' % (n, name, n))
            # tie contents to ghosts
            ghosts += ['char %s_%d' % (name, j) for j in range(K)]
            hdecl += ['char %s_%d;' % (name, j) for j in range(K)]
            for j in range(K):
                if kind == 's':
                    req.append('(%d >= %s || (%s[%d] == %s_%d && %s_%d != 0))' % (j, n, name, j, name, j, name, j))
                else:
                    req.append('(%d >= %s || %s[%d] == %s_%d)' % (j, n, name, j, name, j))
                    noz.append('(%d >= %s || %s_%d != 0)' % (j, n, name, j))
            defs.append('#define SRC_%s(j) %s' % (name, cond_chain(name + '_', K, 'j')))
        elif kind == 'd':
            params.append('char* ' + name); hdecl.append('char* %s;' % name); hargs.append(name); wargs.append(name)
            req.append('__CPROVER_is_fresh(%s, %s)' % (name, m.blen))
            ghosts += ['char %s_%d' % (name, j) for j in range(LG)]
            hdecl += ['char %s_%d;' % (name, j) for j in range(LG)]
            for j in range(LG):
                req.append('(%d >= (%s) || %s[%d] == %s_%d)' % (j, m.blen, name, j, name, j))
            defs.append('#define SRC_%s(j) %s' % (name, cond_chain(name + '_', LG, 'j')))
        elif kind == 'F':
            params.append('void* ' + name); hdecl.append('void* %s;' % name); hargs.append(name); wargs.append(name)
            req.append('__CPROVER_is_fresh(%s, OBJSZ) && WF(%s)' % (name, name))
            noz += ['(%d >= %s_n || %s_%d != 0)' % (j, name, name, j) for j in range(LG)]
            ghosts += ['size_t %s_n' % name] + ['char %s_%d' % (name, j) for j in range(LG)]
            hdecl += ['size_t %s_n;' % name] + ['char %s_%d;' % (name, j) for j in range(LG)]
            req.append('w_length(%s) == %s_n' % (name, name) + ''.join(' && w_char_at(%s,%d) == %s_%d' % (name, j, name, j) for j in range(LG)))
            defs.append('#define SRC_%s(j) %s' % (name, cond_chain(name + '_', LG, 'j')))
        elif kind == 'G':   # a FixedString of the second capacity
            params.append('void* ' + name); hdecl.append('void* %s;' % name); hargs.append(name); wargs.append(name)
            req.append('__CPROVER_is_fresh(%s, OBJSZ2) && WF2(%s)' % (name, name))
            noz += ['(%d >= %s_n || %s_%d != 0)' % (j, name, name, j) for j in range(SG)]
            ghosts += ['size_t %s_n' % name] + ['char %s_%d' % (name, j) for j in range(SG)]
            hdecl += ['size_t %s_n;' % name] + ['char %s_%d;' % (name, j) for j in range(SG)]
            req.append('w_length2(%s) == %s_n' % (name, name) + ''.join(' && w_char_at2(%s,%d) == %s_%d' % (name, j, name, j) for j in range(SG)))
            defs.append('#define SRC_%s(j) %s' % (name, cond_chain(name + '_', SG, 'j')))
    if m.ret == 'str':
        params.append('char* out'); hdecl.append('char* out;'); hargs.append('out'); wargs += ['out', 'L']
        req.append('__CPROVER_is_fresh(out, L)')
    if m.ret == 'cT':
        params.append('int* thrown'); hdecl.append('int* thrown;'); hargs.append('thrown'); wargs.append('thrown')
        req.append('__CPROVER_is_fresh(thrown, sizeof(int))')
    gl = ['size_t g_len'] + ['char g%d' % i for i in range(LG)]
    hdecl += ['size_t g_len;'] + ['char g%d;' % i for i in range(LG)]
    allp = params + gl + ghosts
    hcall = hargs + ['g_len'] + ['g%d' % i for i in range(LG)] + [g.split()[-1] for g in ghosts]
    rt = {'r': 'int', 'v': 'void', 'z': 'size_t', 'i': 'int', 'B': 'int', 'c': 'char', 'str': 'size_t', 'cT': 'char'}[m.ret]
    o = list(defs)
    o.append('%s cw_%s(%s)' % (rt, m.id, ', '.join(allp)))
    o.append('__CPROVER_requires(__CPROVER_is_fresh(self, OBJSZ)%s)' % ('' if getattr(m, 'ctor', False) else ' && WF(self) && TIE(self)'))
    for r in req:
        o.append('__CPROVER_requires(%s)' % r)
    if m.dom10:
        o.append('__CPROVER_requires(%s)  /* documented precondition */' % m.dom10)
    spec = m.spec if c11 else None
    if callable(spec):
        spec = spec(L, S2 if getattr(m, 'cross', False) else K)
    if spec:
        o.append('__CPROVER_requires(%s)  /* documented domain of the std::string operation */' % spec['dom'])
    for r in extra_req:
        o.append('__CPROVER_requires(%s)' % r)
    if c11:
        # C11 quantifies over printable contents: object content and sources are NUL-free
        o.append('__CPROVER_requires(OLD_NOZ%s)  /* C11 domain: NUL-free contents */' % ''.join(' && ' + z for z in noz))
    assigns = ['__CPROVER_object_whole(self)'] if m.mut else []
    for kind, name in m.args:
        if kind == 'F' and m.mut:
            assigns.append('__CPROVER_object_whole(%s)' % name)
        if kind == 'd':
            assigns.append('__CPROVER_object_whole(%s)' % name)
    if m.ret == 'str':
        assigns.append('__CPROVER_object_whole(out)')
    if m.ret == 'cT':
        assigns += ['*thrown', 'cv_thrown']
    assigns += ['cv_thrown', '__CPROVER_object_whole(cv_reg_obj)', '__CPROVER_object_whole(cv_reg_cap)', 'cv_src_ptr', 'cv_src_len']   # the R-THROW flag, the sub-object registry (ghost)
    o.append('__CPROVER_assigns(%s)' % '; '.join(dict.fromkeys(assigns)))
    o.append('__CPROVER_ensures(WF(self))')
    for kind, name in m.args:
        if kind == 'F' and m.mut:
            o.append('__CPROVER_ensures(WF(%s))  /* the other string is modified too (swap): it stays well-formed */' % name)
    if m.ret == 'r':
        o.append('__CPROVER_ensures(R == 1)  /* returns *this */')
    for cl in m.ens10:
        o.append('__CPROVER_ensures(%s)' % cl)
    if m.mut:
        if not light:
            o.append('__CPROVER_ensures(!(OLD_NOZ%s) || NEW_NOZ(self))  /* no NUL stored => length is the C-string length */'
                     % ''.join(' && ' + z for z in noz))
    else:
        o.append('__CPROVER_ensures(TIE(self))  /* observers leave the content unchanged */')
    if spec:
        if m.mut:
            o.append('#define NEWLEN %s' % spec['newlen'])
            o.append('#define EXPECT(k) %s' % spec['expect'])
            o.append('__CPROVER_ensures(w_length(self) == NEWLEN)')
            for k in range(L):
                o.append('__CPROVER_ensures(%d >= NEWLEN || w_char_at(self,%d) == (char)(EXPECT(%dul)))' % (k, k, k))
            o.append('#undef NEWLEN\n#undef EXPECT')
            for cl in spec.get('extra', []):
                o.append('__CPROVER_ensures(%s)' % cl)
        else:
            for cl in spec['result']:
                if cl.startswith('#define'):
                    o.append(cl)
                else:
                    o.append('__CPROVER_ensures(%s)' % cl)
    call = 'w_%s(%s)' % (m.id, ', '.join(wargs))
    o.append('{ %s%s; }' % ('' if rt == 'void' else 'return ', call))
    o.append('void h_%s(void) { void* self; %s __CPROVER_assert(w_sizeof() == OBJSZ, "layout witness: sizeof(FixedString<L>)"); __CPROVER_assert(w_sizeof2() == OBJSZ2, "layout witness: sizeof(FixedString<S2>)"); '
             'cw_%s(%s); CANARY; }' % (m.id, ' '.join(hdecl), m.id, ', '.join(hcall)))
    return '\n'.join(o) + '\n'


def wrapper_decl(m, long_ok=True):
    params = ['void* self']
    for kind, name in m.args:
        if kind == 'z':
            params.append('size_t ' + name)
        elif kind == 'c':
            params.append('char ' + name)
        elif kind in ('s', 'b'):
            params.append('const char* ' + name)
            if kind == 's' and getattr(m, 'long_src', False) and long_ok:
                params.append('size_t %s_n' % name)
        elif kind == 'd':
            params.append('char* ' + name)
        elif kind == 'S':
            params += ['const char* %s_p' % name, 'size_t %s_n' % name]
        elif kind in ('F', 'G'):
            params.append('void* %s_p' % name)
    if m.ret == 'str':
        params += ['char* out', 'size_t out_cap']
    if m.ret == 'cT':
        params += ['int* thrown']
    rt = {'r': 'int', 'v': 'void', 'z': 'size_t', 'i': 'int', 'B': 'int', 'c': 'char', 'str': 'size_t', 'cT': 'char'}[m.ret]
    return '%s w_%s(%s);' % (rt, m.id, ', '.join(params))


def cross_caps(L, tier):
    """second capacities S2 for the cross-capacity members of FixedString<L> (same length type as L: one CV_SIZE_TYPE per TU)"""
    if tier == 'quick':
        return {3: [2, 3, 4], 1: [2]}.get(L, [])
    return sorted(set([max(1, L - 1), L, L + 1] + ({3: [8], 8: [3]}.get(L, []))))


def size_type(L):
    return 'uint8_t' if L < 256 else ('uint16_t' if L < 65536 else 'uint32_t')


def objsz(L):
    # CBMC's C++ object layout: mString[L+1] + size_type, one hidden byte, no padding (layout
    # witness asserted in every harness: a mismatch is exit 2, never a violation)
    return None


class Unit:
    def __init__(self, scratch, prop='C10'):
        self.scratch = scratch
        self.shadow = core.Shadow(scratch)
        self.prop = prop
        self.hdr = extract(self.shadow)
        self.witnesses = []
        self.clauses = {}
        self._objsz = {}
        self._lock = __import__('threading').Lock()

    def witness_size_type(self, L):
        t = self.scratch.write('witness/lt_%d.cpp' % L,
                               '#include <type_traits>\n#include "celma/common/length_type.hpp"\n'
                               'static_assert(std::is_same<celma::common::LengthType<%d>::type, %s>::value, "CV_SIZE_TYPE witness");\n'
                               % (L, size_type(L)))
        self.witnesses.append(core.gxx_syntax(t, [core.SRC], 'CV_SIZE_TYPE=%s is LengthType<%d>::type (g++)' % (size_type(L), L)))

    def clause_text(self, o):
        lines = self.clauses.get(o.get('file', ''))
        t = core.nth_clause(lines, o)
        if t:
            return t
        try:
            return lines[int(o['line']) - 1].strip() if lines else None
        except (ValueError, IndexError):
            return None

    def files(self, L, K, c11, methods, S2=None):
        key = 'fs_L%d%s_K%d_%d' % (L, 'x%d' % S2 if S2 else '', K, int(c11))
        with self._lock:
            wpath = self.scratch.path('gen/%s_w.cpp' % key)
            if not os.path.exists(wpath):
                # a cross-capacity instance carries only the cross-capacity wrappers (the others are proved in the plain instance)
                ms = [m for m in methods if getattr(m, 'cross', False) and (S2 != L or not getattr(m, 'only_diff', False))] if S2 else [m for m in methods if not getattr(m, 'cross', False)]
                self.scratch.write('gen/%s_w.cpp.tmp' % key, wrappers_text(L, ms, S2, K))
                os.rename(wpath + '.tmp', wpath)
        return key, wpath

    def object_size(self, L, wd):
        """sizeof(FixedString<L>) in CBMC's C++ layout, measured by cbmc itself (cached)."""
        with self._lock:
            if L in self._objsz:
                return self._objsz[L]
        src = self.scratch.write('gen/sz_%d.cpp' % L,
                                 '#include <cstdint>\n#include <cstring>\n#include <string>\nextern "C" int cv_thrown;\n'
                                 '#define CV_THROW(k) { cv_thrown = (k); return mString[ 0]; }\n#define CV_THROW_IT(k) { cv_thrown = (k); __CPROVER_assume(0); }\n'
                                 '#define CV_L %d\n#define CV_S CV_L\n' % L + '\n'.join(SUBOBJ) + '\n#include <stdexcept>\n#include <iterator>\n#include <limits>\n#include "celma/common/pre_postfix.hpp"\n' +
                                 '#include "%s"\nint cv_thrown;\nint main() { __CPROVER_assert(sizeof(CV_FS) == CV_SZ, "sz"); }\n' % HDR)
        st = size_type(L)
        lo = L + 1 + {'uint8_t': 1, 'uint16_t': 2, 'uint32_t': 4}[st]
        for cand in range(lo, lo + 10):
            core.goto_cc(['-nostdinc', '-I', core.STUBS, '-I', self.shadow.root, '-DCV_SIZE_TYPE=' + st,
                          '-DCV_SZ=%d' % cand, src, '-o', 'sz.gb'], wd, 'size probe')
            rc, out, err, s = core.run(['cbmc', 'sz.gb'], cwd=wd, timeout=120)
            if 'VERIFICATION SUCCESSFUL' in out:
                with self._lock:
                    self._objsz[L] = cand
                return cand
        raise Undecided('could not determine sizeof(FixedString<%d>) in the CBMC layout' % L)


def make_build(unit, m, L, K, c11, methods, extra_req=(), light=False, S2=None):
    def build(job, wd):
        st = size_type(L)
        sz = unit.object_size(L, wd)
        sz2 = unit.object_size(S2, wd) if S2 else sz
        key, wpath = unit.files(L, K, c11, methods, S2)
        ctext = (prelude_c(L, K, light=light, S2=S2) + '#define OBJSZ %dul\n#define OBJSZ2 %dul\n' % (sz, sz2) + wrapper_decl(m, K > L) + '\n' + contract_text(m, L, K, c11, extra_req, light=light, S2=S2))
        cname = '%s_%s%s.c' % (key, m.id, '_in' if any('/*in*/' in r for r in extra_req) else '')
        cpath = os.path.join(wd, cname)
        open(cpath, 'w').write(ctext)
        unit.clauses[cname] = ctext.splitlines()
        core.goto_cc(['-nostdinc', '-I', core.STUBS, '-I', unit.shadow.root, '-DCV_SIZE_TYPE=' + st, '-DCV_STR_CAP=%d' % (K + L), wpath, '-o', 'cpp.gb'],
                     wd, 'FixedString<%d> wrapper TU' % L)
        core.goto_cc([cpath, '-o', 'c.gb'], wd, 'contract ' + m.id)
        h = 'h_' + m.id
        core.goto_cc(['cpp.gb', 'c.gb', '--function', h, '-o', 'l.gb'], wd, 'link')
        core.dfcc('l.gb', 'i.gb', h, ('cw_' + m.id, 'cw_' + m.id), [], cwd=wd)
        return os.path.join(wd, 'i.gb')
    return build


# --------------------------------------------------------------------------------------------
# native replay (real header, ASan/UBSan)

def replay_args(m, L, K, inputs, content, S2=None):
    def gi(k, d=0):
        v = inputs.get(k, d)
        return v if isinstance(v, int) else d
    n = gi('g_len')
    a = [m.id, 'len=%d' % n, 'c=' + ''.join('%02x' % (gi('g%d' % i) & 255) for i in range(L))]
    for kind, name in m.args:
        if kind == 'z':
            a.append('%s=%d' % (name, gi(name)))
        elif kind == 'c':
            a.append('%s=%d' % (name, gi(name)))
        elif kind in ('s', 'S', 'b'):
            ln = gi(m.blen) if kind == 'b' else gi(name + '_n')
            ln = min(ln, K)
            a.append('str=' + ''.join('%02x' % (gi('%s_%d' % (name, j)) & 255) for j in range(ln)))
            if kind in ('S', 's') and getattr(m, 'long_src', False) and K > L and gi(name + '_n') > K:
                a.append('strlen=%d' % min(gi(name + '_n'), 1 << 20))   # a longer source: the bytes behind the first K are padding
        elif kind == 'F':
            a.append('other_len=%d' % gi(name + '_n'))
            a.append('other_c=' + ''.join('%02x' % (gi('%s_%d' % (name, j)) & 255) for j in range(L)))
        elif kind == 'G':
            a.append('str=' + ''.join('%02x' % (gi('%s_%d' % (name, j)) & 255) for j in range(min(gi(name + '_n'), S2 or L))))
    if m.id == 'sprintf':
        a.append('would=%d' % gi('cvin_would'))   # length of the complete output chosen by the vsnprintf contract
    if content:
        a.append('content=1')
    return a


def native_replay(scratch, L, args, S2=None):
    exe = scratch.path('replay', 'fs_L%d_%d' % (L, S2 or L))
    if not os.path.exists(exe):
        cmd = ['g++', '-std=c++17', '-g', '-O0', '-w', '-fsanitize=address,undefined', '-fno-sanitize-recover=all',
               '-fno-access-control', '-I', core.SRC, '-DCV_L=%d' % L, '-DCV_S=%d' % (S2 or L), os.path.join(core.VERIF, 'replay', 'fs.cpp'), '-o', exe]
        rc, out, err, s = core.run(cmd, timeout=300, limit=False)
        if rc != 0:
            return {'outcome': 'unavailable', 'detail': 'replay build failed: ' + err[-800:]}
    rc, out, err, s = core.run([exe] + args, timeout=60, limit=False, env={'ASAN_OPTIONS': 'detect_leaks=0'})
    text = (out + err).strip()
    rep = rc != 0
    return {'outcome': 'reproduced' if rep else 'not-reproduced',
            'cmd': 'replay/fs.cpp -DCV_L=%d -DCV_S=%d: %s' % (L, S2 or L, ' '.join(args)), 'args': {'L': L, 'S2': S2, 'argv': args},
            'output': text[-1800:]}


def replay(unit, job, o, inputs, scratch):
    L, K = job.instance['L'], job.instance['K']
    mid = job.name.split('_', 2)[2].split('@')[0]
    m = next((x for x in METHODS + OBSERVERS if x.id == mid), None)
    if m is None:
        return {'outcome': 'unavailable', 'detail': 'no method ' + mid}
    S2 = job.instance.get('S2')
    return native_replay(scratch, L, replay_args(m, L, K, inputs, unit.prop == 'C11', S2), S2)


def replay_record(rec, scratch):
    a = rec.get('native_replay', {}).get('args')
    if not a:
        return {'outcome': 'unavailable', 'detail': 'record carries no replay arguments'}
    return native_replay(scratch, a['L'], a['argv'], a.get('S2'))


def evidence_info(unit, tier):
    c11 = unit.prop == 'C11'
    drops = [d for d in unit.shadow.dropped]
    return {
        'explanation': ('Every in-reach public member of FixedString<L> is called once, through an extern "C" wrapper compiled from the '
                        'shadow header, inside a C function carrying the contract; goto-instrument --dfcc enforces it (requires assumed, '
                        'ensures and the assigns frame checked). Pre-state reaches the postconditions through ghost parameters tied to the '
                        'object in the precondition. ' +
                        ('C11: requires the documented domain of the std::string operation and NUL-free contents; ensures the whole '
                         'view (length and every character) equals the std::string result cut at L, or the observer result equals '
                         'std::string\'s. Known findings are excluded as input regions (outside: full contract; inside: only the listed '
                         'clause may fail).' if c11 else
                         'C10: positions and counts are unconstrained size_t; ensures WF (length <= L, NUL at length), "no NUL stored => '
                         'length is the C-string length", returned reference is *this, observers leave the content unchanged; CBMC '
                         'pointer/bounds checks and the ISO preconditions of mem*/str* are obligations.') +
                        ' Proof is per capacity instance L (not for all L); loops are bounded by L/K and unwound with unwinding assertions.'),
        'trusted_base': ['CBMC 6.11 C++ front end on the shadow header (rules and drops listed under extraction)',
                         'CBMC built-in models of memcpy/memmove/memset/memcmp/strlen/strchr (carry the ISO C preconditions)',
                         'stand-in <string> (malloc-backed, never freed, allocation assumed to succeed, temporaries longer than CV_STR_CAP not explored), <cstring>, <cstdint>, <stdexcept>, <cstdarg>, <cstdio> (vsnprintf by assumed contract)',
                         'MiniSat (built into cbmc)', 'g++ witness: CV_SIZE_TYPE equals LengthType<L>::type',
                         'layout witness: sizeof(FixedString<L>) in CBMC\'s C++ layout asserted in every harness'],
        'assumptions': ['per-instance proof: capacities ' + ('3, 5 (quick) / 2, 3, 5, 8 (thorough); cross-capacity members with second capacity L-1, L, L+1' if c11 else
                                                           '1, 2, 3, 8 (quick), + 16 (thorough); cross-capacity members with second capacity L-1, L, L+1; the 255/256 length-type boundary '
                                                           '(uint8_t -> uint16_t length field) with light contracts (invariant + memory safety, no content ghosts) for the members that finish '
                                                           'there: 17 in the quick tier, 33 in the thorough tier, the others time out; 65535/65536 not reached') + '; cross-capacity instances only where both capacities share the length type',
                        'source strings: the members taking a whole std::string or C string (assign, operator=, constructors, append, +=, insert(index,str), replace(pos,count,str), compare, starts_with, ends_with, contains, find, rfind) are proved for sources of ANY length - the string is a view / strlen is by ghost contract (R-STRLEN), only the first L+3 bytes exist and a read behind them is an obligation; the (str,pos,count) overloads and the find_*_of family (strchr over the whole set) keep sources of length <= L+3 (bounded); (str,count) buffers of <= L+3 bytes',
                        'throw in at() modelled by R-THROW (flag + return)', 'termination not proved',
                        'the defaulted/move special members and stream output are not under contract; every other member is: the overloads taking std::initializer_list (a (pointer, length) view built field-wise by the wrapper) and std::string::iterator (pointers into the stand-in string) included; sprintf is under contract for C10 with vsnprintf as ASSUMED contract (writes at most n bytes, NUL-terminated, returns the would-be length >= 0; encoding errors not modelled); the overloads taking FixedString iterators (insert/erase/replace/append), FixedString(const char*) and FixedString(const std::string&) are, and so are the iterator classes themselves (textual instantiation T := char, F := FixedString<L>)'],
        'not_under_contract': drops + ['FixedString() default constructor, copy constructor, destructor, copy assignment (all `= default`), move constructor (rvalue reference)'],
    }
