"""ArgString2Array (src/library/appl/arg_string_2_array.cpp): shadow + harnesses shared by C07 (quoting
round trip of splitString) and C04 (memory safety of the raw argv construction)."""
import os
import re

from . import core
from .core import Job, Rule, Undecided


def extract(shadow):
    def pre(c):
        i = c.index('ArgString2Array::ArgString2Array( ArgString2Array&& other):')
        j = c.index('namespace {', i)
        return c[:i] + c[j:]
    shadow.dropped += ['ArgString2Array(ArgString2Array&&) (rvalue reference)', 'make_arg_array(const std::string&)',
                       'make_arg_array(const std::string&, const char*)']
    shadow.extract('library/appl/arg_string_2_array.cpp', [
        Rule('R-NNS-open', r'^namespace celma::appl \{', 'namespace celma { namespace appl {', 1),
        Rule('R-NNS-close', r'^\} // namespace celma::appl', '}}', 1),
        Rule('R-ANON', r'^namespace \{$', 'namespace cv_anon {} using namespace cv_anon; namespace cv_anon {', 2),
        Rule('R-ALIAS', r'^using StringVec = std::vector< std::string>;', 'typedef std::vector< std::string> StringVec;', 1),
        Rule('R-NEWSIZE-1', r'mpArgV\[ 0\] = new char\[ ::strlen\( progname\) \+ 1\];',
             '{ size_t cv_n = ::strlen( progname) + 1; mpArgV[ 0] = new char[ cv_n]; }', 1),
        Rule('R-NEWSIZE-2', r'argv\[ argc\] = new char\[ next_arg.length\(\) \+ 1\];',
             '{ size_t cv_n = next_arg.length() + 1; argv[ argc] = new char[ cv_n]; }', 1),
        # R-RFOR: range-for is not supported by the front end; if a loop is written differently the rule has nothing to do (a
        # range-for or `auto` the rules do not cover is caught by the leftover-auto guard / fails to compile: exit 2)
        Rule('R-RFOR-1', r'for \(auto next_char : argstring\)\n   \{',
             'for (const char* cv_it = argstring.begin(); cv_it != argstring.end(); ++cv_it)\n   {  char next_char = *cv_it;', (0, 1)),
        Rule('R-RFOR-2', r'for \(auto const& next_arg : arguments\)\n   \{',
             'for (std::string* cv_it = arguments.begin(); cv_it != arguments.end(); ++cv_it)\n   {  const std::string& next_arg = *cv_it;', (0, 1)),
        Rule('drop-unistd', r'#include <unistd.h>\n', '', 1),
    ], pre=pre)

    def pre_h(h):
        return h
    shadow.extract('celma/appl/arg_string_2_array.hpp', [
        Rule('R-NNS-open', r'^namespace celma::appl \{', 'namespace celma { namespace appl {', 1),
        Rule('R-NNS-close', r'^\} // namespace celma::appl', '}}', 1),
        Rule('R-DELETE', r'^[^\n]*= delete;\n', '', 1),
        Rule('drop-move-decl', r'^   ArgString2Array\( ArgString2Array&& other\);\n', '', 1),
        Rule('drop-make', r'^ArgString2Array make_arg_array\([^;]*;\n', '', 2),
        # R-NSDMI: the two default member initialisers are ignored by the front end; both constructors assign
        # both members before reading them, the initialisers are dropped (witnessed by the harness: argc/argv
        # are asserted after construction)
        Rule('R-NSDMI-drop', r'^(   (?:int|char\*\*)\s+m\w+) = [^;]+;', r'\1;', 2),
    ], pre=pre_h)


HARNESS = r'''// generated harness for ArgString2Array (harness mode, bounded)
#include <cstdint>
#include <cstring>
#include <string>
#include <vector>
#include "celma/appl/arg_string_2_array.hpp"
#include "library/appl/arg_string_2_array.cpp"
#define CANARY __CPROVER_assert(0, "CV_CANARY")
using celma::appl::ArgString2Array;

// ---- spec side (C07): render a word list in every quoting style ----------------------------
static bool special(char c) { return c == ' ' || c == '\'' || c == '"' || c == '\\'; }
// one character in style st: 0 bare (backslash only where needed), 1 backslash always, 2 'c', 3 "c"
static void put_char(std::string& line, char c, int st) {
  if (st == 2 || st == 3) { char q = (st == 2) ? '\'' : '"'; line.append(1, q); if (c == q || c == '\\') line.append(1, '\\'); line.append(1, c); line.append(1, q); }
  else { if (st == 1 || special(c)) line.append(1, '\\'); line.append(1, c); } }
// a whole word in mode: 0 escaped as the property states (backslash before space, quotes, backslash), 1 single-quoted,
// 2 double-quoted (the quote character itself and backslash are backslash-escaped inside), 3 every character in its own style
static void put_word(std::string& line, const char* w, size_t n, int mode, const int* st) {
  if (mode == 1 || mode == 2) { char q = (mode == 1) ? '\'' : '"'; line.append(1, q);
    for (size_t i = 0; i < WLEN; ++i) if (i < n) { if (w[i] == q || w[i] == '\\') line.append(1, '\\'); line.append(1, w[i]); }
    line.append(1, q); }
  else for (size_t i = 0; i < WLEN; ++i) if (i < n) put_char(line, w[i], mode == 3 ? st[i] : 0); }

extern "C" {
// C07: split(join(escape(words))) == words, for every word list (<= WORDS words of 1..WLEN arbitrary non-NUL bytes),
// every quoting style per word / per character, 1..2 separating blanks, optional leading and trailing blanks
void h_roundtrip() {
  char w[WORDS][WLEN]; size_t n[WORDS]; int mode[WORDS]; int st[WORDS][WLEN]; size_t k;
  __CPROVER_assume(1 <= k && k <= WORDS);
  for (int a = 0; a < WORDS; ++a) { size_t cvin_n; int cvin_mode; __CPROVER_assume(1 <= cvin_n && cvin_n <= WLEN && 0 <= cvin_mode && cvin_mode <= QMODES); n[a] = cvin_n; mode[a] = cvin_mode;
    for (int i = 0; i < WLEN; ++i) { char cvin_c; int cvin_st; __CPROVER_assume(cvin_c != 0 && 0 <= cvin_st && cvin_st <= 3); w[a][i] = cvin_c; st[a][i] = cvin_st; } }
  std::string line; bool lead, trail; unsigned char sep[WORDS];
  if (lead) line.append(1, ' ');
  for (int a = 0; a < WORDS; ++a) if ((size_t)a < k) { if (a > 0) { unsigned char cvin_sep; __CPROVER_assume(1 <= cvin_sep && cvin_sep <= 2); sep[a] = cvin_sep; line.append(sep[a], ' '); } put_word(line, w[a], n[a], mode[a], st[a]); }
  if (trail) line.append(1, ' ');
  std::vector< std::string> out;
  celma::appl::cv_anon::splitString( out, line);
  __CPROVER_assert(out.size() == k, "splitting restores the number of words");
  for (int a = 0; a < WORDS; ++a) if ((size_t)a < k && (size_t)a < out.size()) {
    __CPROVER_assert(out.mItems[a].mLen == n[a], "splitting restores the length of every word");
    for (int i = 0; i < WLEN; ++i) if ((size_t)i < n[a]) __CPROVER_assert(out.mItems[a].mData[i] == w[a][i], "splitting restores every byte of every word (quoting inverted)"); }
  CANARY; }

// C04: construction and destruction of the argv array are memory-safe for every NUL-free string
void h_ctor_name() {
  std::string s; size_t n; __CPROVER_assume(n <= SLEN); s.mLen = n; for (size_t i = 0; i < CV_STR_CAP; ++i) { char cvin_seq_c; __CPROVER_assume(cvin_seq_c != 0); s.mData[i] = (i < n) ? cvin_seq_c : 0; } s.mData[CV_STR_CAP] = 0;
  bool with_name; size_t pl; __CPROVER_assume(pl <= 4); char* pn = new char[pl + 1]; for (size_t i = 0; i < 4; ++i) if (i < pl) { char cvin_seq_p; __CPROVER_assume(cvin_seq_p != 0); pn[i] = cvin_seq_p; } pn[pl] = 0;
  {
    ArgString2Array a( s, with_name ? pn : (const char*)0);
    __CPROVER_assert(a.mArgC >= 1 && a.mArgC <= (int)(SLEN / 2 + 2), "argc = 1 + number of words");
    __CPROVER_assert(a.mpArgV != 0 && a.mpArgV[a.mArgC] == 0, "argv[argc] is the null pointer");
    for (int i = 0; i < (int)(SLEN / 2 + 2); ++i) if (i < a.mArgC) { __CPROVER_assert(a.mpArgV[i] != 0, "every argv[i] is a string");
      __CPROVER_assert(__CPROVER_OBJECT_SIZE(a.mpArgV[i]) == strlen(a.mpArgV[i]) + 1, "every argv[i] is a separately allocated, NUL-terminated copy of exactly its length"); }
    if (with_name) __CPROVER_assert(strlen(a.mpArgV[0]) == pl, "argv[0] is the program name"); else __CPROVER_assert(strcmp(a.mpArgV[0], "programname") == 0, "argv[0] is the default program name");
  }  // destructor: every allocation released with the matching delete[] (memory-leak check on)
  delete[] pn;
  CANARY; }
void h_ctor_line() {
  std::string s; size_t n; __CPROVER_assume(n <= SLEN); s.mLen = n; for (size_t i = 0; i < CV_STR_CAP; ++i) { char cvin_seq_c; __CPROVER_assume(cvin_seq_c != 0); s.mData[i] = (i < n) ? cvin_seq_c : 0; } s.mData[CV_STR_CAP] = 0;
  {
    ArgString2Array a( s);
    __CPROVER_assert(a.mArgC >= 0 && a.mArgC <= (int)(SLEN / 2 + 1), "argc = number of words");
    __CPROVER_assert(a.mpArgV != 0 && a.mpArgV[a.mArgC] == 0, "argv[argc] is the null pointer");
    for (int i = 0; i < (int)(SLEN / 2 + 1); ++i) if (i < a.mArgC) { __CPROVER_assert(a.mpArgV[i] != 0, "every argv[i] is a string");
      __CPROVER_assert(__CPROVER_OBJECT_SIZE(a.mpArgV[i]) == strlen(a.mpArgV[i]) + 1, "every argv[i] is a separately allocated, NUL-terminated copy of exactly its length"); }
  }
  CANARY; }
}
'''


class Unit:
    def __init__(self, scratch):
        self.scratch = scratch
        self.shadow = core.Shadow(scratch)
        self.witnesses = []
        extract(self.shadow)
        self.hpath = scratch.write('gen/h_as2a.cpp', HARNESS)

    def clause_text(self, o):
        return None


def make_build(unit, h, defs):
    def build(job, wd):
        core.goto_cc(['-nostdinc', '-I', core.STUBS, '-I', unit.shadow.root, '-DCV_STRING_INLINE'] + defs +
                     [unit.hpath, '--function', h, '-o', 'h.gb'], wd, 'ArgString2Array harness TU')
        return os.path.join(wd, 'h.gb')
    return build


def native_replay(scratch, args):
    exe = scratch.path('replay', 'as2a')
    if not os.path.exists(exe):
        cmd = ['g++', '-std=c++17', '-g', '-O0', '-w', '-fsanitize=address,undefined', '-fno-sanitize-recover=all',
               '-I', core.SRC, os.path.join(core.VERIF, 'replay', 'as2a.cpp'), os.path.join(core.SRC, 'library/appl/arg_string_2_array.cpp'), '-o', exe]
        rc, out, err, s = core.run(cmd, timeout=300, limit=False)
        if rc != 0:
            return {'outcome': 'unavailable', 'detail': 'replay build failed: ' + err[-800:]}
    rc, out, err, s = core.run([exe] + args, timeout=60, limit=False)
    return {'outcome': 'reproduced' if rc != 0 else 'not-reproduced', 'cmd': 'replay/as2a.cpp: ' + ' '.join(args),
            'args': {'argv': args}, 'output': (out + err).strip()[-1500:]}
