"""setup: everything is interpreted/generated at check time; setup only verifies the tool chain."""
import os
import shutil
import subprocess
import sys


def main():
    missing = [t for t in ('cbmc', 'goto-cc', 'goto-instrument', 'z3', 'cvc5', 'g++', 'python3') if not shutil.which(t)]
    if missing:
        print('missing tools: ' + ', '.join(missing))
        return 1
    w = os.path.join(os.path.dirname(os.path.dirname(os.path.abspath(__file__))), 'replay', 'limits_witness.cpp')
    r = subprocess.run(['g++', '-std=c++17', '-fsyntax-only', w], capture_output=True, text=True)
    if r.returncode != 0:
        print('stand-in <limits> disagrees with the platform header:\n' + r.stderr[-800:])
        return 1
    print('cv setup: tool chain present (nothing to build; contracts and harnesses are generated per run)')
    return 0
