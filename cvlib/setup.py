"""setup: everything is interpreted/generated at check time; setup only verifies the tool chain."""
import shutil
import sys


def main():
    missing = [t for t in ('cbmc', 'goto-cc', 'goto-instrument', 'z3', 'cvc5', 'g++', 'python3') if not shutil.which(t)]
    if missing:
        print('missing tools: ' + ', '.join(missing))
        return 1
    print('cv setup: tool chain present (nothing to build; contracts and harnesses are generated per run)')
    return 0
