"""Core of the contract-verification driver: scratch handling, shadow extraction (rule engine),
job pipeline (goto-cc -> goto-instrument --dfcc -> cbmc), result classification.

Exit code convention (see DESIGN.md 3.4): 0 = all obligations discharged, 1 = VIOLATION,
2 = undecided (tool failure, timeout, extraction mismatch) -- never reported as a violation.
"""
import concurrent.futures as cf
import difflib
import json
import os
import re
import resource
import shutil
import subprocess
import sys
import tempfile
import threading
import time

VERIF = os.path.dirname(os.path.dirname(os.path.abspath(__file__)))
REPO = os.environ.get('CV_REPO', '/repo')
SRC = os.path.join(REPO, 'src')
STUBS = os.path.join(VERIF, 'stubs')
NCPU = int(os.environ.get('CV_JOBS', os.cpu_count() or 4))
MEM_LIMIT_KB = int(os.environ.get('CV_MEM_KB', 12 * 1024 * 1024))

SAFETY_FLAGS = ['--bounds-check', '--pointer-check',
                '--signed-overflow-check', '--div-by-zero-check']

CANARY_TEXT = 'CV_CANARY'


class Undecided(Exception):
    """Anything that prevents a verdict: maps to exit 2, never to VIOLATION."""


def log(*a):
    print(*a, file=sys.stderr, flush=True)


def _limits():
    resource.setrlimit(resource.RLIMIT_AS, (MEM_LIMIT_KB * 1024, MEM_LIMIT_KB * 1024))
    os.setsid()


def run(cmd, cwd=None, timeout=600, limit=True, stdin=None, env=None):
    """Run a command; returns (rc, stdout, stderr, seconds). rc = -9 on timeout."""
    t0 = time.time()
    try:
        p = subprocess.Popen(cmd, cwd=cwd, stdout=subprocess.PIPE, stderr=subprocess.PIPE,
                             stdin=subprocess.PIPE if stdin is not None else subprocess.DEVNULL,
                             preexec_fn=_limits if limit else os.setsid, text=True, errors='replace',
                             env=dict(os.environ, **env) if env else None)
    except FileNotFoundError as e:
        raise Undecided('tool missing: %s' % e)
    try:
        out, err = p.communicate(stdin, timeout=timeout)
        rc = p.returncode
    except subprocess.TimeoutExpired:
        try:
            os.killpg(p.pid, 9)
        except ProcessLookupError:
            pass
        out, err = p.communicate()
        rc = -9
    return rc, out, err, time.time() - t0


class Scratch:
    """A per-run scratch directory, removed at exit."""

    def __init__(self, tag):
        base = os.environ.get('CV_SCRATCH_BASE') or tempfile.gettempdir()
        self.dir = tempfile.mkdtemp(prefix='cv_%s_' % tag, dir=base)
        self.keep = bool(os.environ.get('CV_KEEP'))

    def path(self, *p):
        d = os.path.join(self.dir, *p)
        os.makedirs(os.path.dirname(d), exist_ok=True)
        return d

    def write(self, rel, text):
        p = self.path(rel)
        with open(p, 'w') as f:
            f.write(text)
        return p

    def cleanup(self):
        if self.keep:
            log('scratch kept: ' + self.dir)
        else:
            shutil.rmtree(self.dir, ignore_errors=True)


# --------------------------------------------------------------------------------------------
# Shadow extraction

class Rule:
    """One extraction rule: regex substitution with a must-fire hit count.

    count: int (exact), (lo, hi) tuple, or None for 'any number, including 0' (only for the
    generic token rules whose absence is harmless).  A rule that does not fire as expected aborts
    the run with exit 2 ('extraction no longer matches the source').
    """

    def __init__(self, name, pattern, repl, count=None, flags=re.M, kind='token'):
        self.name, self.pattern, self.repl, self.count, self.flags, self.kind = \
            name, pattern, repl, count, flags, kind


def R_ANON():
    return Rule('R-ANON', r'^namespace \{$',
                'namespace cv_anon {} using namespace cv_anon; namespace cv_anon {', 1)


def _auto_repl(m):
    return '%sdecltype(%s)%s%s = %s;' % (m.group(1), m.group(4).strip(), m.group(2), m.group(3),
                                         m.group(4))


def R_AUTO(count):
    # `auto x = e;` is silently typed `int` by CBMC's C++ front end; decltype(e) is typed correctly.
    return Rule('R-AUTO', r'((?:const\s+)?)auto(\s+)(\w+)\s*=\s*([^;]+);', _auto_repl, count)


class Shadow:
    def __init__(self, scratch, sub='shadow'):
        self.scratch = scratch
        self.root = scratch.path(sub, '.keep')
        self.root = os.path.dirname(self.root)
        self.report = []      # per file: rules with hit counts, diff size
        self.dropped = []     # names of entities dropped (not under contract)

    def extract(self, rel, rules, out_rel=None, pre=None):
        src_path = os.path.join(SRC, rel)
        try:
            text = open(src_path).read()
        except OSError as e:
            raise Undecided('extraction: cannot read %s: %s' % (src_path, e))
        orig = text
        if pre:
            text = pre(text)
        fired = {}
        for r in rules:
            text, n = re.subn(r.pattern, r.repl, text, flags=r.flags)
            fired[r.name] = fired.get(r.name, 0) + n
            ok = (r.count is None or (isinstance(r.count, tuple) and r.count[0] <= n <= r.count[1])
                  or n == r.count)
            if not ok:
                raise Undecided('extraction rule %s on %s fired %d times, expected %s -- the '
                                'extraction no longer matches the source' % (r.name, rel, n, r.count))
        # guard against the silent front-end deviation: any `auto` declaration the specific rules did not
        # rewrite gets the generic R-AUTO (decltype of the initialiser); anything still left aborts the run
        text = re.sub(r'\bauto\s+const(\s+\w+\s*=)', r'const auto\1', text)   # east const: same type
        text, n = re.subn(r'((?:const\s+)?)auto(\s+)(\w+)\s*=\s*([^;]+);', _auto_repl, text)
        if n:
            fired['R-AUTO(generic)'] = n
        code = re.sub(r'//[^\n]*|/\*.*?\*/', '', text, flags=re.S)
        m = re.search(r'[^\n]*\bauto\b[^\n]*', code)
        if m:
            raise Undecided('extraction: %s still contains an `auto` declaration the rules do not cover (CBMC would type it int): %s'
                            % (rel, m.group(0).strip()[:120]))
        out = os.path.join(self.root, out_rel or rel)
        os.makedirs(os.path.dirname(out), exist_ok=True)
        with open(out, 'w') as f:
            f.write(text)
        changed = sum(1 for l in difflib.unified_diff(orig.splitlines(), text.splitlines(), lineterm='', n=0)
                      if (l.startswith('+') or l.startswith('-')) and not l.startswith(('+++', '---')))
        self.report.append({'file': rel, 'rules': fired, 'diff_lines': changed,
                            'lines': orig.count('\n')})
        return out

    def summary(self):
        return ['%s: %s; %d of %d lines differ' % (
            r['file'], ', '.join('%s x%d' % kv for kv in sorted(r['rules'].items())) or 'verbatim',
            r['diff_lines'], r['lines']) for r in self.report]


# --------------------------------------------------------------------------------------------
# Jobs

class Job:
    """One function (or one case-split instance of it) checked against its contract.

    build(job, workdir) must produce the goto binary to be handed to cbmc and return its path.
    """

    def __init__(self, name, function, contract, build, backend='sat', unwind=None, timeout=300,
                 min_obligations=1, need_postcondition=True, extra_flags=(), mode='dfcc',
                 instance=None, bounded=None, finding_region=None, expect_fail=None,
                 replay_unit=None, group=None, object_bits=None):
        self.name = name                  # unique id, used for file names
        self.function = function          # human-readable function under contract
        self.contract = contract          # contract name
        self.build = build
        self.backend = backend            # sat | kissat | cvc5 | z3
        self.unwind = unwind
        self.timeout = timeout
        self.min_obligations = min_obligations
        self.need_postcondition = need_postcondition
        self.extra_flags = list(extra_flags)
        self.mode = mode                  # dfcc | harness
        self.instance = instance or {}
        self.bounded = bounded            # None or text of the bound
        self.finding_region = finding_region   # known-finding id when this job runs inside a region
        self.expect_fail = expect_fail    # set of obligation keys allowed to fail (inside region)
        self.replay_unit = replay_unit
        self.group = group or function
        self.object_bits = object_bits
        # results
        self.status = None                # 'ok' | 'fail' | 'undecided'
        self.reason = ''
        self.obligations = []             # list of dicts
        self.failed = []
        self.solver_s = 0.0
        self.build_s = 0.0
        self.canary = None
        self.cmd = ''
        self.workdir = None
        self.binary = None


def cbmc_cmd(job, binary, trace=False):
    cmd = ['cbmc', binary] + SAFETY_FLAGS + ['--json-ui']
    if job.backend == 'cvc5':
        cmd.append('--cvc5')
    elif job.backend == 'z3':
        cmd.append('--z3')
    elif job.backend == 'kissat':      # same propositional encoding, decided by the installed kissat instead of the built-in MiniSat
        cmd += ['--external-sat-solver', 'kissat']
    if job.unwind:
        cmd += ['--unwind', str(job.unwind), '--unwinding-assertions']
    if job.object_bits:
        cmd += ['--object-bits', str(job.object_bits)]
    cmd += job.extra_flags
    if trace:
        cmd.append('--trace')
    return cmd


def parse_cbmc_json(out):
    """Returns (results list, messages list, status) from --json-ui output; tolerant of truncation."""
    try:
        data = json.loads(out)
    except json.JSONDecodeError:
        return None, [], None
    results, msgs, status = None, [], None
    for e in data:
        if not isinstance(e, dict):
            continue
        if 'result' in e:
            results = e['result']
        if 'messageText' in e:
            msgs.append((e.get('messageType', ''), e['messageText']))
        if 'cProverStatus' in e:
            status = e['cProverStatus']
    return results, msgs, status


def obligation_key(r):
    """A name for an obligation that is stable across runs and harmless edits: class + text,
    without CBMC's running number."""
    pid = r.get('property', '')
    desc = r.get('description', '')
    return pid, desc


BAD_LOG = re.compile(r'ignoring|no body for|SMT2 solver returned error|Parse Error|unsupported', re.I)


def run_job(job, scratch, clause_text=None):
    wd = scratch.path('jobs', job.name, '.keep')
    wd = os.path.dirname(wd)
    job.workdir = wd
    t0 = time.time()
    try:
        binary = job.build(job, wd)
    except Undecided as e:
        job.status, job.reason = 'undecided', 'build: %s' % e
        return job
    job.build_s = time.time() - t0
    job.binary = binary
    cmd = cbmc_cmd(job, binary)
    job.cmd = ' '.join(cmd[:1] + ['<binary>'] + cmd[2:])
    # temporary files of cbmc / the SMT solvers go into the job directory (removed with the scratch directory even
    # when the process is killed on timeout)
    rc, out, err, secs = run(cmd, cwd=wd, timeout=job.timeout, env={'TMPDIR': wd})
    job.solver_s = secs
    if rc == -9:
        job.status, job.reason = 'undecided', 'cbmc timeout after %ds (%s)' % (job.timeout, job.backend)
        return job
    results, msgs, status = parse_cbmc_json(out)
    if results is None:
        tail = (out[-600:] + err[-600:]).replace('\n', ' | ')
        job.status, job.reason = 'undecided', 'cbmc produced no result (rc=%s): %s' % (rc, tail)
        return job
    for typ, m in msgs:
        if typ == 'ERROR' or (typ == 'WARNING' and BAD_LOG.search(m)):
            # "no body for" etc. would make the result meaningless
            if 'no body for' in m or 'ignoring' in m or typ == 'ERROR':
                job.status, job.reason = 'undecided', 'cbmc %s: %s' % (typ.lower(), m[:300])
                return job
    job.obligations = []
    canary = None
    for r in results:
        desc = r.get('description', '')
        if CANARY_TEXT in desc:
            # canaries of harness functions that are not the entry point are unreachable (SUCCESS);
            # the entry point's canary must be reachable (FAILURE)
            if canary != 'FAILURE':
                canary = r['status']
            continue
        o = {'id': r.get('property', ''), 'text': desc, 'status': r['status'],
             'class': r.get('sourceLocation', {}).get('propertyClass', '') or r.get('property', '').split('.')[-2:-1],
             'file': os.path.basename(r.get('sourceLocation', {}).get('file', '')),
             'line': r.get('sourceLocation', {}).get('line', ''),
             'function': r.get('sourceLocation', {}).get('function', '')}
        if isinstance(o['class'], list):
            o['class'] = o['class'][0] if o['class'] else ''
        if clause_text and o['class'] in ('postcondition', 'precondition', 'assertion'):
            t = clause_text(o)
            if t:
                o['clause'] = t
        job.obligations.append(o)
    job.canary = canary
    if canary is None:
        job.status, job.reason = 'undecided', 'vacuity canary missing from cbmc result'
        return job
    if canary != 'FAILURE' and job.finding_region and any(r['status'] == 'FAILURE' for r in results):
        # inside a known-finding region the call may never return normally (that is the finding)
        canary = job.canary = 'FAILURE'
    if canary != 'FAILURE':
        job.status, job.reason = 'undecided', ('vacuity canary not reachable (status %s): the precondition is '
                                               'unsatisfiable or the call never returns' % canary)
        return job
    bad = [o for o in job.obligations if o['status'] not in ('SUCCESS', 'FAILURE')]
    # CBMC 6 reports obligations behind a failed one on the same path as UNKNOWN: with a FAILURE present
    # the verdict is the failure; UNKNOWN without any failure is undecided
    if bad and not any(o['status'] == 'FAILURE' for o in job.obligations):
        job.status, job.reason = 'undecided', 'obligation %s has status %s' % (bad[0]['id'], bad[0]['status'])
        return job
    if len(job.obligations) < job.min_obligations:
        job.status, job.reason = 'undecided', 'only %d obligations generated, expected >= %d' % (
            len(job.obligations), job.min_obligations)
        return job
    if job.need_postcondition and not any(o['class'] in ('postcondition', 'assertion') for o in job.obligations):
        job.status, job.reason = 'undecided', 'no postcondition obligation generated'
        return job
    job.failed = [o for o in job.obligations if o['status'] == 'FAILURE']
    # obligations about the harness itself (its bounds, the layout witness) are not part of any
    # property: when one fails the machinery is wrong -> undecided, never a violation
    own = [o for o in job.failed if o['text'].startswith(('harness bound', 'layout witness'))]
    if own:
        job.status, job.reason = 'undecided', 'harness self-check failed: %s' % own[0]['text']
        job.failed = []
        return job
    job.status = 'fail' if job.failed else 'ok'
    return job


def get_trace(job):
    """Re-run a failed job with --trace; returns {obligation id: {var: value}} for harness inputs."""
    cmd = cbmc_cmd(job, job.binary, trace=True)
    rc, out, err, secs = run(cmd, cwd=job.workdir, timeout=job.timeout * 2, env={'TMPDIR': job.workdir})
    results, msgs, status = parse_cbmc_json(out)
    traces = {}
    if not results:
        return traces
    for r in results:
        if r['status'] != 'FAILURE' or CANARY_TEXT in r.get('description', ''):
            continue
        vals = {}
        for step in r.get('trace', []):
            if step.get('stepType') == 'assignment' and not step.get('hidden', False):
                lhs = step.get('lhs', '')
                v = step.get('value', {})
                fn = step.get('sourceLocation', {}).get('function', '')
                if 'data' in v and (fn.startswith('h_') or lhs.startswith('cvin_')) and not lhs.startswith('__'):
                    val = v['data']
                    if v.get('name') == 'integer' and 'binary' in v:
                        b = v['binary']
                        val = int(b, 2)
                        t = v.get('type', '')
                        if b[0] == '1' and not ('unsigned' in t or t in ('size_t', '__CPROVER_size_t', '_Bool')):
                            val -= 1 << len(b)
                    if lhs.startswith('cvin_seq_'):
                        vals.setdefault(lhs, []).append(val)
                    else:
                        vals[lhs] = val
        traces[r.get('property', '')] = vals
    return traces


def run_jobs(jobs, scratch, clause_text=None, ncpu=None):
    ncpu = ncpu or NCPU
    done = []
    lock = threading.Lock()

    def one(j):
        try:
            run_job(j, scratch, clause_text)
        except Exception as e:  # defensive: a crash of the driver is undecided, not a verdict
            j.status, j.reason = 'undecided', 'driver error: %r' % (e,)
        with lock:
            done.append(j)
            if not os.environ.get('CV_VERBOSE'):
                if j.status == 'ok':
                    return j
                if j.status == 'undecided' and sum(1 for x in done if x.status == 'undecided') > 3:
                    return j
            log('  [%3d/%3d] %-52s %-9s %4d obl  %6.1fs %s' % (
                len(done), len(jobs), j.name, j.status, len(j.obligations), j.solver_s,
                (j.reason[:160] if j.status == 'undecided' else
                 ('FAILED: ' + ', '.join(o['id'] for o in j.failed[:4]) if j.failed else ''))))
        return j

    # longest jobs first
    order = sorted(jobs, key=lambda j: -j.timeout)
    with cf.ThreadPoolExecutor(max_workers=ncpu) as ex:
        list(ex.map(one, order))
    return jobs


# --------------------------------------------------------------------------------------------
# Build helpers

def goto_cc(args, cwd, what):
    rc, out, err, s = run(['goto-cc'] + args, cwd=cwd, timeout=300, env={'TMPDIR': cwd} if cwd else None)
    if rc != 0:
        raise Undecided('goto-cc failed on %s: %s' % (what, (out + err)[-1500:]))


_symtab_cache = {}
_symtab_lock = threading.Lock()


def symbols(binary, cwd):
    rc, out, err, s = run(['goto-instrument', '--show-symbol-table', binary], cwd=cwd, timeout=300)
    if rc != 0:
        raise Undecided('goto-instrument --show-symbol-table failed: %s' % err[-500:])
    return [l.split(':', 1)[1].strip() for l in out.splitlines() if l.startswith('Symbol......:')]


def resolve_symbol(syms, pattern):
    """The mangled name of exactly one function matching the regex (functions only: no '::' suffix
    after the closing parenthesis)."""
    rx = re.compile(pattern)
    hits = sorted(set(s for s in syms if s.endswith(')') and rx.search(s)))
    if len(hits) != 1:
        raise Undecided('contract target %r matches %d symbols %s (renamed or removed function?)'
                        % (pattern, len(hits), hits[:5]))
    return hits[0]


def dfcc(inp, out, harness, enforce, replace=(), cwd=None, loop_contracts=False):
    """enforce: (symbol, contract) ; replace: list of (symbol, contract)."""
    cmd = ['goto-instrument', '--dfcc', harness, '--enforce-contract',
           enforce[0] if enforce[0] == enforce[1] else '%s/%s' % enforce]
    for s, c in replace:
        cmd += ['--replace-call-with-contract', '%s/%s' % (s, c)]
    if loop_contracts:
        cmd.append('--apply-loop-contracts')
    cmd += [inp, out]
    rc, o, e, s = run(cmd, cwd=cwd, timeout=300)
    if rc != 0:
        raise Undecided('goto-instrument --dfcc failed: %s' % (o + e)[-1500:])
    return out


# --------------------------------------------------------------------------------------------
# g++ witnesses (supporting static facts, compiled against the REAL headers)

def gxx_syntax(path, incs, what, extra=()):
    cmd = ['g++', '-std=c++17', '-fsyntax-only', '-w'] + [x for i in incs for x in ('-I', i)] + list(extra) + [path]
    rc, out, err, s = run(cmd, timeout=300, limit=False)
    if rc != 0:
        raise Undecided('g++ witness failed (%s): %s' % (what, err[-1200:]))
    return '%s: ok' % what


def auto_witness_text(text):
    """Original text with a static_assert behind every `auto x = e;` site: the type g++ deduces for
    `auto` equals decltype(e) (what R-AUTO writes), modulo the declared const."""
    def repl(m):
        const = 'const ' if m.group(1).strip() else ''
        return (m.group(0) + ' static_assert(std::is_same<decltype(%s), %sdecltype(%s)>::value, "R-AUTO witness");'
                % (m.group(3), const, m.group(4).strip()))
    return '#include <type_traits>\n' + re.sub(r'((?:const\s+)?)auto(\s+)(\w+)\s*=\s*([^;]+);', repl, text)


def nth_clause(lines, o):
    """Text of the contract clause an obligation belongs to: '<contract>.postcondition.N' is the N-th
    __CPROVER_ensures of that contract (ordinal, not line based: CBMC's line for a macro-expanded
    clause is not reliable)."""
    import re as _re
    m = _re.match(r'(.+)\.(postcondition|precondition)\.(\d+)$', o.get('id', ''))
    if not m or not lines:
        return None
    name, kind, n = m.group(1), m.group(2), int(m.group(3))
    key = '__CPROVER_ensures(' if kind == 'postcondition' else '__CPROVER_requires('
    start = None
    for i, l in enumerate(lines):
        if _re.search(r'\b%s\(' % _re.escape(name), l) and not l.lstrip().startswith(('//', '#')):
            start = i
            break
    if start is None:
        return None
    cnt = 0
    for l in lines[start:]:
        if l.startswith(key):
            cnt += 1
            if cnt == n:
                return l.strip()
        if l.startswith(';') or l.startswith('{') or l.rstrip().endswith(';') and not l.startswith('__CPROVER'):
            if cnt:
                break
    return None


def nsdmi_to_meminit(text, classes):
    """R-NSDMI: CBMC's C++ front end silently ignores default member initialisers (measured: members
    stay nondeterministic).  For each listed class move every `T m = v;` of the class body into the
    mem-initialiser list of its default constructor (adding `Cls(): m( v) {}` when the class has no
    user-declared constructor) -- by the language rules the same initialisation.
    classes: {name: ctor_head_regex or None}.  Returns (text, {class: [members]})."""
    done = {}
    for cls, ctor_rx in classes.items():
        m = re.search(r'^(?:template<[^\n]*> )?class %s\b[^{;]*\{\n(.*?)^\}; // %s' % (cls, cls), text, flags=re.M | re.S)
        if not m:
            raise Undecided('R-NSDMI: class %s not found' % cls)
        body = m.group(1)
        members = re.findall(r'^( +)([\w:<> ,\[\]\*]+?)\s+(\w+) = ([^;{}]+);\n', body, flags=re.M)
        if not members:
            raise Undecided('R-NSDMI: class %s has no default member initialiser (rule must fire)' % cls)
        nbody = re.sub(r'^( +)([\w:<> ,\[\]\*]+?)(\s+)(\w+) = ([^;{}]+);\n', r'\1\2\3\4;\n', body, flags=re.M)
        inits = ', '.join('%s( %s)' % (mm[2], mm[3].strip()) for mm in members)
        if ctor_rx is None:
            nbody = 'public:\n   %s(): %s {}\n' % (cls, inits) + nbody
            text = text[:m.start(1)] + nbody + text[m.end(1):]
        else:
            text = text[:m.start(1)] + nbody + text[m.end(1):]
            text, n = re.subn(ctor_rx, lambda mo: mo.group(0) + ', ' + inits, text)
            if n != 1:
                raise Undecided('R-NSDMI: constructor of %s matched %d times' % (cls, n))
        done[cls] = [mm[2] for mm in members]
    return text, done
