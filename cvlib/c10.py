"""C10 -- FixedString never touches memory outside itself and stays well-formed."""
from . import core, fs, fs_obs
from .core import Job
import os

# methods that finish at L = 255 / 256 within the thorough budget (measured with CV_C10_BIG=1)
BIG_OK = {'api', 'append_s', 'append_sn', 'assign_s', 'at', 'back', 'clear', 'compare_s', 'contains_c', 'copy', 'ctor_s', 'ends_with_c',
          'ends_with_s', 'eq', 'erase', 'find_c', 'find_first_not_of_c', 'find_first_of_c', 'find_last_not_of_c', 'find_last_of_c', 'front',
          'index', 'it_deref', 'it_step', 'ne', 'opassign_s', 'pop_back', 'push_back', 'rfind_c', 'rit_deref', 'rit_step', 'starts_with_c', 'swap'}
# of these, the ones that take < 10 s at both capacities also run in the quick tier
BIG_QUICK = {'assign_s', 'at', 'back', 'clear', 'copy', 'ends_with_c', 'front', 'index', 'it_deref', 'it_step', 'opassign_s', 'pop_back',
             'push_back', 'rit_deref', 'rit_step', 'starts_with_c', 'swap'}


class Unit(fs.Unit):
    def __init__(self, scratch):
        fs.Unit.__init__(self, scratch, 'C10')


def instances(tier):
    return [1, 2, 3, 8] if tier == 'quick' else [1, 2, 3, 8, 16]


def jobs(unit, tier, only=None):
    out = []
    methods = fs.METHODS + fs.OBSERVERS
    for L in instances(tier):
        unit.witness_size_type(L)
        unit.object_size(L, unit.scratch.dir)
        K = L + 3
        for m in methods:
            if getattr(m, 'cross', False):
                continue
            out.append(Job('c10_L%d_%s' % (L, m.id), 'FixedString<L>::' + m.call, 'cw_' + m.id,
                           fs.make_build(unit, m, L, K, False, methods), backend='sat',
                           unwind=K + L + 4, timeout=900 if tier == 'quick' else 2400, instance={'L': L, 'K': K},
                           bounded=None))
        # cross-capacity members: the other operand is a FixedString<S2>
        for S2 in fs.cross_caps(L, tier):
            unit.object_size(S2, unit.scratch.dir)
            for m in methods:
                if getattr(m, 'cross', False) and not (S2 == L and m.only_diff):
                    out.append(Job('c10_L%dx%d_%s' % (L, S2, m.id), 'FixedString<L>::' + getattr(m, 'disp', m.call), 'cw_' + m.id,
                                   fs.make_build(unit, m, L, K, False, methods, S2=S2), backend='sat',
                                   unwind=K + L + S2 + 4, timeout=900 if tier == 'quick' else 2400, instance={'L': L, 'K': K, 'S2': S2}, bounded=None))
    # the 255/256 length-type boundary (uint8_t / uint16_t length field): "light" contracts (invariant + safety, no content
    # ghosts) for the methods that finish there (measured: 33 of 94 within 300 s); the fast ones also in the quick tier
    if True:
        for L in (255, 256):
            unit.witness_size_type(L)
            unit.object_size(L, unit.scratch.dir)
            for m in methods:
                if getattr(m, 'cross', False):
                    continue
                if os.environ.get('CV_C10_BIG') or m.id in (BIG_OK if tier == 'thorough' else BIG_QUICK):
                    out.append(Job('c10_L%d_%s' % (L, m.id), 'FixedString<L>::' + m.call, 'cw_' + m.id,
                                   fs.make_build(unit, m, L, 4, False, methods, light=True), backend='sat', unwind=L + 8,
                                   timeout=int(os.environ.get('CV_C10_BIG_TIMEOUT', 1800)), instance={'L': L, 'K': 4, 'light': True}, object_bits=12))
    if only:
        out = [j for j in out if only in j.name]
    return out

replay = fs.replay
replay_record = fs.replay_record

evidence_info = fs.evidence_info
