"""C12 -- DynamicBitset behaves like a growable reference bit vector (DESIGN.md section 4, C12).

Harness mode, bounded: bitset sizes <= CAP (quick 16 / thorough 32); positions and shift distances
are full size_t (growth beyond the stand-in vector's capacity is a cut path, stated).  The
dependency std::vector<bool> is an assumed-contract stand-in (stubs/vector) whose operator[]
precondition i < size() is the obligation "no access outside the bitset".
"""
import os
import re

from . import core
from .core import Job, Rule, Undecided


def common_rules(n_nns3=0, n_nns2=0, n_alias=None, n_default=None):
    r = []
    if n_nns3:
        r += [Rule('R-NNS3-open', r'^namespace (\w+)::(\w+)::(\w+) \{', r'namespace \1 { namespace \2 { namespace \3 {', n_nns3),
              Rule('R-NNS3-close', r'^\} // namespace \w+::\w+::\w+', '}}}', n_nns3)]
    if n_nns2:
        r += [Rule('R-NNS2-open', r'^namespace (\w+)::(\w+) \{', r'namespace \1 { namespace \2 {', n_nns2),
              Rule('R-NNS2-close', r'^\} // namespace \w+::\w+$', '}}', n_nns2)]
    r += [Rule('R-ALIAS', r'^(\s*)using (\w+) = ([^;]+);', r'\1typedef \3 \2;', n_alias),
          Rule('R-DEFAULT', r'^[^\n]*= default;\n', '', n_default),
          Rule('R-KW-final', r'\bfinal\b', '', None), Rule('R-KW-override', r'\boverride\b', '', None),
          Rule('R-ACCESS', r'^(private|protected):', 'public:', None)]
    return r


class Unit:
    def __init__(self, scratch):
        self.scratch = scratch
        self.shadow = sh = core.Shadow(scratch)
        self.witnesses = []
        # header: drop the bitset<N> / to_string member templates (declarations and definitions)
        sh.dropped += ['DynamicBitset(std::vector<bool>&&)', 'operator=(std::vector<bool>&&)']

        def pre_h(h):
            # keep the definition of to_string (T := char), drop the two bitset<N> member templates around it
            m = re.search(r'^template< typename T> std::string DynamicBitset::to_string\( T zero, T one\) const\n\{.*?^\} // DynamicBitset::to_string\n', h, flags=re.M | re.S)
            if not m:
                raise Undecided('extraction: DynamicBitset::to_string definition not found')
            ts = m.group(0).replace('template< typename T> std::string DynamicBitset::to_string( T zero, T one) const', 'inline std::string DynamicBitset::to_string( char zero, char one) const')
            i = h.index('template< size_t N> DynamicBitset::DynamicBitset')
            j = h.index('// free functions')
            # T-INST: the two std::bitset< N> member templates with N := CV_BS_N (a size chosen per proof instance)
            mid = h[i:j].replace(m.group(0), '')
            mid, n1 = re.subn(r'template< size_t N>\s*DynamicBitset::DynamicBitset\( const std::bitset< N>& other\)', 'inline DynamicBitset::DynamicBitset( const std::bitset< CV_BS_N>& other)', mid)
            mid, n2 = re.subn(r'template< size_t N>\s*DynamicBitset& DynamicBitset::operator =\( const std::bitset< N>& other\)', 'inline DynamicBitset& DynamicBitset::operator =( const std::bitset< CV_BS_N>& other)', mid)
            mid, n3 = re.subn(r'\bN\b', 'CV_BS_N', mid)
            if (n1, n2) != (1, 1) or not 4 <= n3 <= 8:
                raise Undecided('extraction: T-INST of the std::bitset< N> members fired %d / %d / %d times (expected 1 / 1 / about 5)' % (n1, n2, n3))
            return h[:i] + ts + mid + h[j:]
        sh.extract('celma/container/dynamic_bitset.hpp',
                   [Rule('T-INST-bitset-ctor', r'   template< size_t N> explicit DynamicBitset\( const std::bitset< N>& other\);', '   explicit DynamicBitset( const std::bitset< CV_BS_N>& other);', 1),
                    Rule('T-INST-bitset-assign', r'   template< size_t N> DynamicBitset& operator =\( const std::bitset< N>& other\);', '   DynamicBitset& operator =( const std::bitset< CV_BS_N>& other);', 1),
                    Rule('T-INST-to_string-decl', r'   template< typename T = char>\n      std::string to_string\( T zero = T\( \'0\'\), T one = T\( \'1\'\)\) const;', '   std::string to_string( char zero = \'0\', char one = \'1\') const;', 1),
                    Rule('drop-rvalue', r'^[^\n]*std::vector< bool>&& other\);\n', '', 2),
                    # const iterators: the front end loses const on class types, so both instantiations are bound to
                    # T := DynamicBitset (the iterators only call the const members size() and test())
                    Rule('T-INST-use-const', r'detail::DynamicBitset(Reverse)?Iterator< const DynamicBitset>', r'detail::DynamicBitset\1Iterator', 2),
                    Rule('T-INST-use', r'detail::DynamicBitset(Reverse)?Iterator< DynamicBitset>', r'detail::DynamicBitset\1Iterator', 2),
                    Rule('T-INST-include-fwd', r'#include "celma/container/detail/dynamic_bitset_iterator.hpp"\n',
                         'namespace celma { namespace container { namespace detail { class DynamicBitsetIterator; class DynamicBitsetReverseIterator; } } }\n', 1),
                    Rule('T-INST-include-late', r'^// =====  END OF dynamic_bitset.hpp  =====',
                         '#include "celma/container/detail/dynamic_bitset_iterator.hpp"\n// =====  END OF dynamic_bitset.hpp  =====', 1)]
                   + common_rules(n_nns2=1, n_alias=5, n_default=5), pre=pre_h)
        sh.extract('celma/container/detail/dynamic_bitset_iterator.hpp',
                   [Rule('R-AUTO-self-fwd', r'template< typename T> class DynamicBitsetIterator final :',
                         '#undef CV_SELF\n#define CV_SELF DynamicBitsetIterator\nclass DynamicBitsetIterator final :', 1),
                    Rule('R-AUTO-self-rev', r'template< typename T> class DynamicBitsetReverseIterator final :',
                         '#undef CV_SELF\n#define CV_SELF DynamicBitsetReverseIterator\nclass DynamicBitsetReverseIterator final :', 1),
                    Rule('T-INST-base', r'template< typename T> class DynamicBitsetIteratorBase', 'class DynamicBitsetIteratorBase', 1),
                    Rule('T-INST-args', r'DynamicBitsetIteratorBase< T>', 'DynamicBitsetIteratorBase', (10, 30)),
                    Rule('R-COPYCTOR', r'^(   DynamicBitsetIteratorBase\( T\* dbs, ssize_t startpos\):)',
                         '   DynamicBitsetIteratorBase( const DynamicBitsetIteratorBase& cv_o): mpDynBitset( cv_o.mpDynBitset), mCurrPos( cv_o.mCurrPos) {}\n\\1', 1),
                    Rule('T-INST-ptr', r'\bT\*', 'DynamicBitset*', (5, 8)),
                    Rule('R-AUTO-self', r'auto  copy\( \*this\);', 'CV_SELF copy( *this);', 4),
                    Rule('R-PREPOST-pre', r'\( std::prefix\)', '()', 4), Rule('R-PREPOST-post', r'\( std::postfix\)', '( int)', 4)]
                   + common_rules(n_nns3=1, n_alias=0, n_default=3))
        self.scratch.write('shadow/celma/common/pre_postfix.hpp',
                           '#pragma once\n// R-PREPOST: Celma\'s aliases std::prefix = void, std::postfix = int as typedefs (alias-declarations are not parsed)\n'
                           'namespace std { typedef void prefix; typedef int postfix; }\n')
        self.shadow.report.append({'file': 'celma/common/pre_postfix.hpp', 'rules': {'R-PREPOST (two alias-declarations as typedefs)': 2}, 'diff_lines': 4, 'lines': 40})

        def pre_c(c):
            # drop the two rvalue-reference members
            for name in ('DynamicBitset::DynamicBitset( std::vector< bool>&& other)', 'DynamicBitset& DynamicBitset::operator =( std::vector< bool>&& other)'):
                i = c.index(name)
                j = c.index('\n} //', i)
                j = c.index('\n', j + 1)
                c = c[:i] + c[j:]
            return c
        sh.extract('library/container/dynamic_bitset.cpp',
                   [Rule('R-RFOR', r'for \(auto flag : mData\)\n   \{',
                         'for (std::vector< bool>::iterator cv_it = mData.begin(); cv_it != mData.end(); ++cv_it)\n   {  std::vector< bool>::reference flag = *cv_it;', 1),
                    Rule('R-CONST', r'return const_(reverse_)?iterator\( this', r'return const_\1iterator( const_cast< DynamicBitset*>( this)', 8),
                    Rule('R-AUTO-copy1', r'auto copy\( \*this\);', 'DynamicBitset copy( *this);', 1),
                    Rule('R-AUTO-copy3', r'auto  copy\( lhs\);', 'DynamicBitset  copy( lhs);', 3),
                    Rule('R-THROW', r'throw std::(out_of_range|overflow_error)\([^;]*\);', 'CV_THROW( 1);', 3, flags=re.M | re.S),
                    # the growth helper (added by the fix of the position overflow) throws from inside a helper: the path ends there
                    Rule('R-THROW-cut', r'throw std::length_error\([^;]*\);', '{ cv_thrown = 2; __CPROVER_assume(0); }', (0, 1), flags=re.M | re.S)]
                   + common_rules(n_nns2=1, n_alias=0, n_default=0), pre=pre_c)
        # g++ witness for the typed `auto copy`: decltype(copy) is the class type
        w = scratch.write('witness/c12_auto.cpp', '#include <type_traits>\n#include "celma/container/dynamic_bitset.hpp"\n'
                          'using celma::container::DynamicBitset;\nvoid f(const DynamicBitset& lhs) { auto copy( lhs); static_assert(std::is_same<decltype(copy), DynamicBitset>::value, "auto copy( lhs) is DynamicBitset"); }\n')
        self.witnesses.append(core.gxx_syntax(w, [core.SRC], 'R-AUTO witness: auto copy( lhs) has type DynamicBitset'))
        self.hpath = scratch.write('gen/h12.cpp', HARNESS)

    def clause_text(self, o):
        return None


HARNESS = r'''// generated harness for C12 (harness mode, bounded): -DCAP=<max bitset size> -DCV_VEC_CAP=<stand-in capacity>
#include <cstdint>
extern "C" { int cv_thrown; }
#define CV_THROW(k) { cv_thrown = (k); return 0; }
#define assert(c) __CPROVER_assert(c, "assert(" #c ")")
#include <string>
#include "library/container/dynamic_bitset.cpp"
using celma::container::DynamicBitset;
#define CANARY __CPROVER_assert(0, "CV_CANARY")
#define V CV_VEC_CAP
// an arbitrary bitset of size n <= CAP with arbitrary bits (also behind the size: stale bits must not matter)
#define MK(d, n, b) DynamicBitset d( 0); size_t n; bool b[V]; { __CPROVER_assume(n <= CAP); d.mData.mSize = n; for (size_t i = 0; i < V; ++i) { unsigned char cvin_bit; bool cv_b = (cvin_bit & 1) != 0; /* canonical bool */ d.mData.mBits[i] = cv_b; b[i] = cv_b; } }
#define BIT(b, n, i) ((i) < (n) ? b[i] : false)
static size_t ref_count(const bool* b, size_t n) { size_t c = 0; for (size_t i = 0; i < V; ++i) if (i < n && b[i]) ++c; return c; }
#define SAME_BELOW(d, b, lim, skip) for (size_t i = 0; i < V; ++i) if (i < (lim) && i != (skip)) __CPROVER_assert(d.mData.mBits[i] == b[i], "bits at other positions unchanged");
// growth is (pos + 1) * 1.5 evaluated in double: positions for which that stays inside size_t (beyond, the real
// vector throws length_error either way -- 'grow or throw' is satisfied and nothing is decidable by a contract)
#define POSDOM(p)   /* every position: a position too big for any vector must end in an exception (std::length_error), never in an access */
#ifndef CV_KF_EXPR
#define CV_KF_EXPR 1
#endif
#define KF_HOOK __CPROVER_assume(CV_KF_EXPR);
#define NOTHROW __CPROVER_assert(!cv_thrown, "no exception")

extern "C" {
void h_test() { MK(d, n, b) size_t pos; cv_thrown = 0; bool r = d.test(pos);
  if (pos < n) { NOTHROW; __CPROVER_assert(r == b[pos], "test(pos) returns the bit"); } else __CPROVER_assert(cv_thrown, "test(pos >= size) throws");
  __CPROVER_assert(d.size() == n, "test does not change the size"); CANARY; }
void h_queries() { MK(d, n, b) cv_thrown = 0; size_t c = ref_count(b, n);
  __CPROVER_assert(d.size() == n, "size()"); __CPROVER_assert(d.count() == c, "count() = number of set bits");
  __CPROVER_assert(d.any() == (c > 0), "any()"); __CPROVER_assert(d.none() == (c == 0), "none()"); __CPROVER_assert(d.all() == (c == n), "all()");
  NOTHROW; CANARY; }
void h_to_ulong() { MK(d, n, b) cv_thrown = 0; unsigned long r = d.to_ulong(); unsigned long e = 0; bool high = false;
  for (size_t i = 0; i < V; ++i) if (i < n && b[i]) { if (i >= 64) high = true; else e |= 1UL << i; }
  if (high) __CPROVER_assert(cv_thrown, "to_ulong throws when a bit >= 64 is set"); else { NOTHROW; __CPROVER_assert(r == e, "to_ulong = sum of 2^i over the set bits"); } CANARY; }
// ---- single-bit modifiers: grow instead of touching memory outside
#define GROWN(d, n, pos) if ((pos) < (n)) __CPROVER_assert(d.size() == (n), "in-range position: size unchanged"); else __CPROVER_assert(d.size() > (pos), "position at or beyond the size: bitset grown to include it"); \
  for (size_t i = 0; i < V; ++i) if (i >= (n) && i < d.size() && i != (pos)) __CPROVER_assert(!d.mData.mBits[i], "bits added by growing are false");
void h_set_pos() { MK(d, n, b) size_t pos; POSDOM(pos) unsigned char cvin_v; bool v = (cvin_v & 1) != 0; cv_thrown = 0; d.set(pos, v); NOTHROW; GROWN(d, n, pos) __CPROVER_assert(d.test(pos) == v, "set(pos, v) stores v"); SAME_BELOW(d, b, n, pos) CANARY; }
void h_reset_pos() { MK(d, n, b) size_t pos; POSDOM(pos) cv_thrown = 0; d.reset(pos); NOTHROW; GROWN(d, n, pos) __CPROVER_assert(!d.test(pos), "reset(pos) clears the bit"); SAME_BELOW(d, b, n, pos) CANARY; }
void h_flip_pos() { MK(d, n, b) size_t pos; POSDOM(pos) cv_thrown = 0; d.flip(pos); NOTHROW; GROWN(d, n, pos) __CPROVER_assert(d.test(pos) == !BIT(b, n, pos), "flip(pos) inverts the bit (a new bit was false)"); SAME_BELOW(d, b, n, pos) CANARY; }
void h_index_const() { MK(d, n, b) size_t pos; cv_thrown = 0; const DynamicBitset& cd = d; bool r = cd[pos];
  if (pos < n) { NOTHROW; __CPROVER_assert(r == b[pos], "const operator[] returns the bit"); } else __CPROVER_assert(cv_thrown, "const operator[] (pos >= size) throws"); CANARY; }
void h_index_ref() { MK(d, n, b) size_t pos; POSDOM(pos) unsigned char cvin_v; bool v = (cvin_v & 1) != 0; cv_thrown = 0; d[pos] = v; NOTHROW; GROWN(d, n, pos) __CPROVER_assert(d.test(pos) == v, "operator[] reference writes the bit"); SAME_BELOW(d, b, n, pos) CANARY; }
// ---- whole-set modifiers
void h_set_all() { MK(d, n, b) d.set(); __CPROVER_assert(d.size() == n, "set(): size unchanged"); for (size_t i = 0; i < V; ++i) if (i < n) __CPROVER_assert(d.mData.mBits[i], "set(): every bit true"); CANARY; }
void h_reset_all() { MK(d, n, b) d.reset(); __CPROVER_assert(d.size() == 0 || d.size() == n, "reset(): size kept or emptied"); __CPROVER_assert(d.count() == 0 && d.none(), "reset(): no bit set"); CANARY; }
void h_flip_all() { MK(d, n, b) d.flip(); __CPROVER_assert(d.size() == n, "flip(): size unchanged"); for (size_t i = 0; i < V; ++i) if (i < n) __CPROVER_assert(d.mData.mBits[i] == !b[i], "flip(): every bit inverted"); CANARY; }
void h_not() { MK(d, n, b) DynamicBitset r = ~d; __CPROVER_assert(r.size() == n && d.size() == n, "~: same size, operand unchanged"); for (size_t i = 0; i < V; ++i) if (i < n) __CPROVER_assert(r.mData.mBits[i] == !b[i] && d.mData.mBits[i] == b[i], "~: every bit inverted in the result"); CANARY; }
void h_eq() { MK(d, n, b) MK(o, m, c) __CPROVER_assume(m == n); bool e = true; for (size_t i = 0; i < V; ++i) if (i < n && b[i] != c[i]) e = false;
  __CPROVER_assert((d == o) == e, "operator== between bitsets of equal size"); CANARY; }
// ---- compound assignment = binary operator, for every operand size
#define BINOP(NAME, OP, OPA, RSIZE, EXPR) void h_##NAME() { MK(d, n, b) MK(o, m, c) DynamicBitset r = celma::container::operator OP( d, o); d OPA o; \
  size_t rs = (RSIZE); __CPROVER_assert(d.size() == rs && r.size() == rs, #OPA " / " #OP ": result size"); \
  for (size_t i = 0; i < V; ++i) if (i < rs) { bool x = BIT(b, n, i), y = BIT(c, m, i); __CPROVER_assert(d.mData.mBits[i] == (EXPR), #OPA ": bitwise result (missing bits of the shorter operand are 0)"); \
    __CPROVER_assert(r.mData.mBits[i] == d.mData.mBits[i], #OPA " gives the same result as " #OP); } \
  __CPROVER_assert(o.size() == m, "right operand unchanged"); CANARY; }
BINOP(and, &, &=, n, x && y)
BINOP(or, |, |=, (n > m ? n : m), x || y)
BINOP(xor, ^, ^=, (n > m ? n : m), x != y)
// ---- shifts, every distance (0 .. beyond the size, up to SIZE_MAX)
void h_shl() { MK(d, n, b) size_t k; KF_HOOK DynamicBitset r = d << k; d <<= k; size_t rs = (n == 0 || k == 0) ? n : n + k;
  __CPROVER_assert(d.size() == rs && r.size() == rs, "<<= / <<: size grows by the distance (non-empty bitset)");
  for (size_t i = 0; i < V; ++i) if (i < rs) { bool e = (k == 0) ? BIT(b, n, i) : (i >= k ? BIT(b, n, i - k) : false);
    __CPROVER_assert(d.mData.mBits[i] == e, "<<=: bit i is old bit i-k, zeros shifted in"); __CPROVER_assert(r.mData.mBits[i] == d.mData.mBits[i], "<<= gives the same result as <<"); } CANARY; }
void h_shr() { MK(d, n, b) size_t k; DynamicBitset r = d >> k; d >>= k;
  __CPROVER_assert(d.size() == n && r.size() == n, ">>= / >>: size unchanged");
  for (size_t i = 0; i < V; ++i) if (i < n) { bool e = (k < n && i < n - k) ? b[i + k] : false;
    __CPROVER_assert(d.mData.mBits[i] == e, ">>=: bit i is old bit i+k, zeros shifted in (all zero for k >= size)"); __CPROVER_assert(r.mData.mBits[i] == d.mData.mBits[i], ">>= gives the same result as >>"); } CANARY; }
// ---- iteration: exactly the set positions, ascending / descending; none for empty or all-zero
static size_t next_set(const bool* b, size_t n, size_t from) { for (size_t i = 0; i < V; ++i) if (i >= from && i < n && b[i]) return i; return n; }
static long prev_set(const bool* b, size_t n, long from) { for (long i = V - 1; i >= 0; --i) if (i <= from && (size_t)i < n && b[i]) return i; return -1; }
void h_iter_begin() { MK(d, n, b) cv_thrown = 0; DynamicBitset::iterator it = d.begin(); DynamicBitset::iterator e = d.end(); NOTHROW;
  __CPROVER_assert((size_t)it.mCurrPos == next_set(b, n, 0), "begin() is the lowest set position, or end() when there is none");
  __CPROVER_assert(e.mCurrPos == (ssize_t)n && (it == e) == (ref_count(b, n) == 0), "begin() == end() exactly for an empty or all-zero bitset"); CANARY; }
void h_iter_next() { MK(d, n, b) size_t p; __CPROVER_assume(p < n && b[p]); cv_thrown = 0; DynamicBitset::iterator it( &d, p); NOTHROW; __CPROVER_assert((size_t)it.mCurrPos == p && *it == p, "iterator on a set position stays there");
  ++it; NOTHROW; __CPROVER_assert((size_t)it.mCurrPos == next_set(b, n, p + 1), "++ moves to the next higher set position, or end()");
  DynamicBitset::iterator e = d.end(); ++e; NOTHROW; __CPROVER_assert(e.mCurrPos == (ssize_t)n, "++ on end() stays at end()"); CANARY; }
void h_riter_begin() { MK(d, n, b) cv_thrown = 0; DynamicBitset::reverse_iterator it = d.rbegin(); DynamicBitset::reverse_iterator e = d.rend(); NOTHROW;
  __CPROVER_assert(it.mCurrPos == prev_set(b, n, (long)V), "rbegin() is the highest set position, or rend() when there is none");
  __CPROVER_assert(e.mCurrPos == -1 && (it == e) == (ref_count(b, n) == 0), "rbegin() == rend() exactly for an empty or all-zero bitset"); CANARY; }
void h_riter_next() { MK(d, n, b) size_t p; __CPROVER_assume(p < n && b[p]); cv_thrown = 0; DynamicBitset::reverse_iterator it( &d, p); NOTHROW; __CPROVER_assert((size_t)it.mCurrPos == p, "reverse iterator on a set position stays there");
  ++it; NOTHROW; __CPROVER_assert(it.mCurrPos == prev_set(b, n, (long)p - 1), "reverse ++ moves to the next lower set position, or rend()");
  DynamicBitset::reverse_iterator e = d.rend(); ++e; NOTHROW; __CPROVER_assert(e.mCurrPos == -1, "++ on rend() stays at rend()"); CANARY; }
void h_citer() { MK(d, n, b) cv_thrown = 0; const DynamicBitset& cd = d;
  DynamicBitset::const_iterator i1 = cd.begin(); DynamicBitset::const_iterator i2 = cd.cbegin(); DynamicBitset::const_iterator e1 = cd.end(); DynamicBitset::const_iterator e2 = cd.cend(); NOTHROW;
  __CPROVER_assert((size_t)i1.mCurrPos == next_set(b, n, 0) && (size_t)i2.mCurrPos == next_set(b, n, 0), "begin() const / cbegin() are the lowest set position, or end()");
  __CPROVER_assert(e1.mCurrPos == (ssize_t)n && e2.mCurrPos == (ssize_t)n, "end() const / cend() are at size()");
  DynamicBitset::const_reverse_iterator r1 = cd.rbegin(); DynamicBitset::const_reverse_iterator r2 = cd.crbegin(); DynamicBitset::const_reverse_iterator f1 = cd.rend(); DynamicBitset::const_reverse_iterator f2 = cd.crend(); NOTHROW;
  __CPROVER_assert(r1.mCurrPos == prev_set(b, n, (long)V) && r2.mCurrPos == prev_set(b, n, (long)V), "rbegin() const / crbegin() are the highest set position, or rend()");
  __CPROVER_assert(f1.mCurrPos == -1 && f2.mCurrPos == -1, "rend() const / crend() are at -1"); CANARY; }
void h_to_string() { MK(d, n, b) std::string s = d.to_string(); __CPROVER_assert(s.length() == n, "to_string: one character per bit");
  for (size_t i = 0; i < V; ++i) if (i < n) __CPROVER_assert(s.c_str()[n - 1 - i] == (b[i] ? '1' : '0'), "to_string: bit i is the character at distance i from the right end, '1' for a set bit");
  char cvin_z, cvin_o; std::string t = d.to_string(cvin_z, cvin_o); for (size_t i = 0; i < V; ++i) if (i < n) __CPROVER_assert(t.c_str()[n - 1 - i] == (b[i] ? cvin_o : cvin_z), "to_string(zero, one) uses the given characters"); CANARY; }
void h_ctor() { size_t n; __CPROVER_assume(n <= CAP); DynamicBitset d( n); __CPROVER_assert(d.size() == n && d.count() == 0, "DynamicBitset(n): n bits, all false");
  MK(s, m, b) DynamicBitset c( s.mData); __CPROVER_assert(c.size() == m && (c == s), "DynamicBitset(vector<bool>) copies the vector"); CANARY; }
// conversions from std::vector< bool> / std::bitset< CV_BS_N>: the bitset takes over size and every bit
void h_assign_vec() { MK(d, n, b) MK(s, m, c) d = s.mData; __CPROVER_assert(d.size() == m, "operator=(vector<bool>): size of the vector");
  for (size_t i = 0; i < V; ++i) if (i < m) __CPROVER_assert(d.mData.mBits[i] == c[i], "operator=(vector<bool>): every bit of the vector"); CANARY; }
#define MKBS(s, c) std::bitset< CV_BS_N> s; bool c[CV_BS_N]; for (size_t i = 0; i < CV_BS_N; ++i) { unsigned char cvin_bit; bool cv_b = (cvin_bit & 1) != 0; s.mB[i] = cv_b; c[i] = cv_b; }
void h_ctor_bitset() { MKBS(s, c) DynamicBitset d( s); __CPROVER_assert(d.size() == CV_BS_N, "DynamicBitset(bitset<N>): N bits");
  for (size_t i = 0; i < CV_BS_N; ++i) __CPROVER_assert(d.mData.mBits[i] == c[i], "DynamicBitset(bitset<N>): bit i is bit i of the bitset"); CANARY; }
void h_assign_bitset() { MK(d, n, b) MKBS(s, c) d = s; __CPROVER_assert(d.size() == CV_BS_N, "operator=(bitset<N>): N bits");
  for (size_t i = 0; i < CV_BS_N; ++i) __CPROVER_assert(d.mData.mBits[i] == c[i], "operator=(bitset<N>): bit i is bit i of the bitset"); CANARY; }
void h_resize() { MK(d, n, b) size_t c; unsigned char cvin_v; bool v = (cvin_v & 1) != 0; __CPROVER_assume(c <= CAP); d.resize(c, v); __CPROVER_assert(d.size() == c, "resize: new size");
  for (size_t i = 0; i < V; ++i) if (i < c) __CPROVER_assert(d.mData.mBits[i] == (i < n ? b[i] : v), "resize keeps old bits, new bits get the init value"); CANARY; }
}
'''

HARNESSES = ['test', 'queries', 'to_ulong', 'set_pos', 'reset_pos', 'flip_pos', 'index_const', 'index_ref', 'set_all', 'reset_all', 'flip_all',
             'not', 'eq', 'and', 'or', 'xor', 'shl', 'shr', 'iter_begin', 'iter_next', 'riter_begin', 'riter_next', 'citer', 'to_string', 'ctor', 'resize', 'assign_vec', 'ctor_bitset', 'assign_bitset']


def make_build(unit, cap, vcap, h, kf_expr='1'):
    def build(job, wd):
        core.goto_cc(['-nostdinc', '-I', core.STUBS, '-I', unit.shadow.root, '-DCAP=%d' % cap, '-DCV_VEC_CAP=%d' % vcap, '-DCV_BS_N=%d' % min(cap, 11), '-DCV_KF_EXPR=(%s)' % kf_expr,
                      unit.hpath, '--function', 'h_' + h, '-o', 'h.gb'], wd, 'C12 harness TU')
        return os.path.join(wd, 'h.gb')
    return build


def jobs(unit, tier, only=None):
    cap = int(os.environ.get("CV_C12_CAP", 16 if tier == "quick" else 32))   # measured: 16 -> 28 s, 32 -> 250 s, 48 -> shl times out
    out = []
    from .check import load_known_findings
    findings = load_known_findings('C12')
    for h in HARNESSES:
        # growth: (pos+1)*1.5 may reach 1.5*(CAP+1); shifts reach 2*CAP; the stand-in capacity leaves room
        vcap = 2 * cap + 4
        c = cap
        if h == 'to_ulong':
            c, vcap = 66, 66      # bit positions 63/64 matter here (overflow clause)
        if h == 'to_string':
            c, vcap = (5, 6) if tier == 'quick' else (8, 8)   # heap-backed stand-in string: costly, smaller instance
        regs = [(f['id'], f['regions'][h]) for f in findings if h in f.get('regions', {})]
        outside = ' && '.join('!(%s)' % r for _, r in regs) or '1'
        bnd = 'bitset size <= %d (growth / shift results <= %d)' % (c, vcap)
        out.append(Job('c12_%s' % h, 'DynamicBitset::' + h, 'reference bit vector (harness)', make_build(unit, c, vcap, h, outside),
                       backend='sat', unwind=vcap + 2, timeout=900, mode='harness', instance={'CAP': c, 'VEC_CAP': vcap, 'excluded_regions': [r for _, r in regs]},
                       bounded=bnd, extra_flags=['--drop-unused-functions'], object_bits=12))
        for fid, r in regs:
            out.append(Job('c12_%s@%s' % (h, fid), 'DynamicBitset::' + h, 'reference bit vector (harness)', make_build(unit, c, vcap, h, r),
                           backend='sat', unwind=vcap + 2, timeout=900, mode='harness', instance={'CAP': c, 'VEC_CAP': vcap, 'inside_region': r},
                           bounded=bnd, extra_flags=['--drop-unused-functions'], object_bits=12, finding_region=fid))
    if only:
        out = [j for j in out if only in j.name]
    return out


def evidence_info(unit, tier):
    return {
        'explanation': 'BOUNDED stand-in, never counted as proved beyond the bound: every public member of DynamicBitset and the iterator '
                       'steps are called once on an arbitrary bitset of size <= CAP with arbitrary bits (stale bits behind the size included) '
                       'and compared with the reference bit vector semantics (DESIGN appendix B) as named obligations; positions and shift '
                       'distances are full size_t. std::vector<bool> is an assumed-contract stand-in whose operator[] requires index < size().',
        'trusted_base': ['CBMC 6.11 C++ front end on the shadow unit (rules listed under extraction)',
                         'stand-in <vector> (vector<bool> with proxy references, capacity-bounded: growth beyond the capacity is a cut path), <algorithm>, <stdexcept>',
                         'R-THROW: throw becomes "flag + return 0"', 'MiniSat'],
        'assumptions': ['bounded: bitset size <= CAP; growth factor (pos+1)*1.5 evaluated in double by CBMC as written',
                        'reset(): the property does not say whether the size is kept; both are accepted',
                        'std::bitset<N> members: textual instantiation with N = 11 (member templates; std::bitset by stand-in with unchecked operator[] as precondition); vector<bool>&& members not under contract (rvalue references)', 'termination not proved'],
        'not_under_contract': list(unit.shadow.dropped),
    }


def native_replay(scratch, args):
    exe = scratch.path('replay', 'c12')
    if not os.path.exists(exe):
        cmd = ['g++', '-std=c++17', '-g', '-O0', '-w', '-D_GLIBCXX_ASSERTIONS', '-fsanitize=address,undefined', '-fno-sanitize-recover=all',
               '-I', core.SRC, os.path.join(core.VERIF, 'replay', 'c12.cpp'), '-o', exe]
        rc, out, err, s = core.run(cmd, timeout=300, limit=False)
        if rc != 0:
            return {'outcome': 'unavailable', 'detail': 'replay build failed: ' + err[-800:]}
    rc, out, err, s = core.run([exe] + args, timeout=60, limit=False, env={'ASAN_OPTIONS': 'detect_leaks=0'})
    return {'outcome': 'reproduced' if rc != 0 else 'not-reproduced', 'cmd': 'replay/c12.cpp: ' + ' '.join(args),
            'args': {'argv': args}, 'output': (out + err).strip()[-1500:]}


def replay(unit, job, o, inputs, scratch):
    op = job.name[4:].split('@')[0]

    def gi(k, d=0):
        v = inputs.get(k, d)
        return v & 0xFFFFFFFFFFFFFFFF if isinstance(v, int) else d

    def bits(arr, nk):
        n = min(gi(nk), 80)
        return ''.join('1' if (gi('%s[%dl]' % (arr, i)) & 1) else '0' for i in range(n))
    if 'bitset' in op:
        inputs = dict(inputs, m=11)
    a = [op, 'bits=' + bits('b', 'n'), 'obits=' + bits('c', 'm'), 'pos=%d' % gi('pos'), 'k=%d' % gi('k'), 'v=%d' % (gi('cvin_v') & 1)]
    return native_replay(scratch, a)


def replay_record(rec, scratch):
    a = rec.get('native_replay', {}).get('args')
    return native_replay(scratch, a['argv']) if a else {'outcome': 'unavailable', 'detail': 'no arguments'}
