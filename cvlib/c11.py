"""C11 -- FixedString equals std::string cut off at the capacity (content postconditions)."""
from . import core, fs, fs_obs
from .core import Job


class Unit(fs.Unit):
    def __init__(self, scratch):
        fs.Unit.__init__(self, scratch, 'C11')


def instances(tier):
    return [3, 5] if tier == 'quick' else [2, 3, 5, 8]


def in_instance(m, L, tier):
    """quick: every method at L=3, mutators and compare also at L=5 (the find_*_of family through
    strchr costs 100+ s per overload at L=5); thorough: everything at 2, 3, 5, mutators at 8."""
    if tier == 'quick':
        return L == 3 or m.mut or m.id.startswith(('compare', 'contains', 'find_', 'rfind_', 'starts_with', 'ends_with')) and not m.id.startswith(('find_first', 'find_last'))
    return L <= 5 or m.mut


def jobs(unit, tier, only=None):
    out = []
    methods = [m for m in fs.METHODS + fs.OBSERVERS if m.spec]
    from .check import load_known_findings
    findings = load_known_findings('C11')
    for L in instances(tier):
        unit.witness_size_type(L)
        unit.object_size(L, unit.scratch.dir)
        K = L + 3
        for S2 in [None] + fs.cross_caps(L, tier):
            if S2:
                unit.object_size(S2, unit.scratch.dir)
            tag = 'L%d' % L + ('x%d' % S2 if S2 else '')
            for m in methods:
                cross = getattr(m, 'cross', False)
                if cross != bool(S2) or (cross and S2 == L and m.only_diff) or (not cross and not in_instance(m, L, tier)):
                    continue
                # a cross-capacity member shares the known findings of the std::string overload it is specified by
                kid = getattr(m, 'kf_as', m.id)
                regs = [(f['id'], f['regions'][kid]) for f in findings if kid in f.get('regions', {})]
                outside = ['!(%s)' % r for _, r in regs]
                inst = {'L': L, 'K': K}
                if S2:
                    inst['S2'] = S2
                fn = 'FixedString<L>::' + getattr(m, 'disp', m.call)
                bounded = None if (cross or getattr(m, 'long_src', False) or not any(k in ('s', 'S', 'b') for k, _ in m.args)) else 'source strings <= L+3 characters'
                out.append(Job('c11_%s_%s' % (tag, m.id), fn, 'cw_' + m.id,
                               fs.make_build(unit, m, L, K, True, methods, outside, S2=S2), backend='sat',
                               unwind=K + L + (S2 or 0) + 4, timeout=900 if tier == 'quick' else 3000, instance=dict(inst, excluded_regions=[r for r in outside]),
                               bounded=bounded))
                for fid, r in regs:
                    out.append(Job('c11_%s_%s@%s' % (tag, m.id, fid), fn, 'cw_' + m.id,
                                   fs.make_build(unit, m, L, K, True, methods, ['/*in*/ ' + r], S2=S2), backend='sat',
                                   unwind=K + L + (S2 or 0) + 4, timeout=900 if tier == 'quick' else 3000, instance=dict(inst, inside_region=r),
                                   bounded=bounded, finding_region=fid))
    if only:
        out = [j for j in out if only in j.name]
    return out


replay = fs.replay
replay_record = fs.replay_record

evidence_info = fs.evidence_info
