"""C11 -- FixedString equals std::string cut off at the capacity (content postconditions)."""
from . import core, fs, fs_obs
from .core import Job


class Unit(fs.Unit):
    def __init__(self, scratch):
        fs.Unit.__init__(self, scratch, 'C11')


def instances(tier):
    return [3, 5] if tier == 'quick' else [2, 3, 5, 8]


def in_instance(m, L, tier):
    """quick: every method at L=3, mutators and compare also at L=5 (the find_*_of family through
    strchr costs 100+ s per overload at L=5); thorough: everything at 2, 3, 5, mutators at 8."""
    if tier == 'quick':
        return L == 3 or m.mut or m.id.startswith('compare')
    return L <= 5 or m.mut


def jobs(unit, tier, only=None):
    out = []
    methods = [m for m in fs.METHODS + fs.OBSERVERS if m.spec]
    from .check import load_known_findings
    findings = load_known_findings('C11')
    for L in instances(tier):
        unit.witness_size_type(L)
        unit.object_size(L, unit.scratch.dir)
        K = L + 3
        for m in methods:
            if not in_instance(m, L, tier):
                continue
            regs = [(f['id'], f['regions'][m.id]) for f in findings if m.id in f.get('regions', {})]
            outside = ['!(%s)' % r for _, r in regs]
            out.append(Job('c11_L%d_%s' % (L, m.id), 'FixedString<L>::' + m.call, 'cw_' + m.id,
                           fs.make_build(unit, m, L, K, True, methods, outside), backend='sat',
                           unwind=K + L + 4, timeout=600 if tier == 'quick' else 3000, instance={'L': L, 'K': K, 'excluded_regions': [r for r in outside]},
                           bounded='source strings <= L+3 characters'))
            for fid, r in regs:
                out.append(Job('c11_L%d_%s@%s' % (L, m.id, fid), 'FixedString<L>::' + m.call, 'cw_' + m.id,
                               fs.make_build(unit, m, L, K, True, methods, ['/*in*/ ' + r]), backend='sat',
                               unwind=K + L + 4, timeout=600 if tier == 'quick' else 3000, instance={'L': L, 'K': K, 'inside_region': r},
                               bounded='source strings <= L+3 characters', finding_region=fid))
    if only:
        out = [j for j in out if only in j.name]
    return out


replay = fs.replay
replay_record = fs.replay_record

evidence_info = fs.evidence_info
