"""C05 (bounded) -- a key designates exactly one argument, independent of definition order.

Units: ArgumentKey (whole translation unit), Storage<T,E> (textual instantiation T := shared_ptr<TypedArgBase>,
E := std::invalid_argument), and the bodies of ArgumentContainer::addArgument / findArg sliced into a class
shell that contains only the members those two functions use.  Harness mode.
"""
import os
import re

from . import core
from .core import Job, Rule, Undecided

DATA_HEAD = ('typedef CV_HANDLE U; typedef CV_HANDLE T; typedef std::invalid_argument E;\nclass Data\n{\npublic:\n'
             "   Data(): mKey( char( 0)), mData() {}   // needed by the stand-in vector's inline element array only")
THROW_RX = r'throw (?:std::)?(?:invalid_argument|runtime_error|E)\([^;]*\);'


class Unit:
    def __init__(self, scratch):
        self.scratch = scratch
        self.shadow = sh = core.Shadow(scratch)
        self.witnesses = []
        sh.extract('celma/prog_args/detail/argument_key.hpp', [
            Rule('R-DEFAULT', r'^[^\n]*= default;\n', '', 4),
            Rule('drop-argString-decl', r'^   const std::string& argString\(\) const;\n', '', 1),
            Rule('drop-argString-def', r'^inline const std::string& ArgumentKey::argString\(\) const\n\{.*?^\} // ArgumentKey::argString\n', '', 1, flags=re.M | re.S),
            Rule('R-ACCESS', r'^private:', 'public:', 1)])
        sh.dropped += ['ArgumentKey::argString() (const std::string& return: the front end loses const on class types)', 'operator<<(std::ostream&, const ArgumentKey&)']

        def pre_k(c):
            i = c.index('std::ostream& operator <<( std::ostream& os, const ArgumentKey& ak)')
            j = c.index('} // namespace detail')
            return c[:i] + c[j:]
        def pre_su(t):
            # slice of string_util.hpp: the two predicates startsWith()/endsWith() as they stand (argument_key.cpp includes the header;
            # a key comparison may be built on them); the editing helpers and split2() (`-> decltype( auto)`) are outside the front end
            out = ['#pragma once\n#include <string>\nnamespace celma { namespace common {\n']
            for fn in ('startsWith', 'endsWith'):
                m = re.search(r'^inline bool %s\(.*?^\} // %s\n' % (fn, fn), t, flags=re.M | re.S)
                if not m:
                    raise Undecided('extraction: string_util.hpp: %s() not found' % fn)
                out.append(m.group(0))
            return ''.join(out) + '}}\n'
        sh.extract('celma/common/string_util.hpp', [], pre=pre_su)
        sh.dropped += ['string_util.hpp: ensure_last, remove_to_if*, split2 (not used by the key code)']
        sh.extract('library/prog_args/detail/argument_key.cpp', [
            Rule('R-ANON', r'^namespace \{$', 'namespace cv_anon {} using namespace cv_anon; namespace cv_anon {', 1),
            Rule('R-THROW', THROW_RX, 'CV_THROW( 1);', 10, flags=re.M | re.S),
            Rule('R-AUTO-comma', r'const auto  comma_pos', 'const size_t  comma_pos', 1)], pre=pre_k)
        w = scratch.write('witness/c05_auto.cpp', '#include <string>\n#include <type_traits>\nvoid f(const std::string& s) { const auto p = s.find( \',\'); '
                          'static_assert(std::is_same<decltype(p), const size_t>::value, "comma_pos is size_t"); }\n')
        self.witnesses.append(core.gxx_syntax(w, [], 'R-AUTO witness: std::string::find returns size_t'))

        def pre_s(t):
            # drop insert<I>, erase, printSummary (declarations and definitions)
            t, n1 = re.subn(r'^   template< typename I> void insert\([^;]*;\n', '', t, flags=re.M)
            t, n2 = re.subn(r'^   const_iterator erase\( const_iterator& it\);\n', '', t, flags=re.M)
            t, n3 = re.subn(r'^   void printSummary\([^;]*;\n', '', t, flags=re.M)
            t, n4 = re.subn(r'^template< typename T, typename E>\n   template< typename I>\n      void Storage< T, E>::insert\(.*?^\} // Storage< T, E>::insert\n', '', t, flags=re.M | re.S)
            t, n5 = re.subn(r'^template< typename T, typename E>\n   typename Storage< T, E>::const_iterator\n      Storage< T, E>::erase\(.*?^\} // Storage< T, E>::erase\n', '', t, flags=re.M | re.S)
            t, n6 = re.subn(r'^template< typename T, typename E>\n   void Storage< T, E>::printSummary\(.*?^\} // Storage< T, E>::printSummary\n', '', t, flags=re.M | re.S)
            if (n1, n2, n3, n4, n5, n6) != (1, 1, 1, 1, 1, 1):
                raise Undecided('extraction: storage.hpp drops matched %s, expected six times 1' % ((n1, n2, n3, n4, n5, n6),))
            return t
        sh.dropped += ['Storage::insert<I>', 'Storage::erase', 'Storage::printSummary']
        sh.extract('celma/prog_args/detail/storage.hpp', [
            Rule('drop-includes', r'#include ("celma/format/to_string.hpp"|"celma/prog_args/summary_options.hpp"|<iostream>|<sstream>)\n', '', 4),
            Rule('T-INST-Data-head', r'template< typename U> class Data\n\{\npublic:', lambda m: DATA_HEAD, 1),
            Rule('T-INST-Data', r'Data< [UT]>', 'Data', (5, 12)),
            Rule('R-DEFAULT', r'^[^\n]*= default; ?\n', '', 3),
            Rule('R-CONST-key', r'return mKey;\n   \} // Data::key', 'return const_cast< ArgumentKey&>( mKey);\n   } // Data::key', 1),
            Rule('R-CONST-data', r'return mData;\n   \} // Data::data', 'return const_cast< U&>( mData);\n   } // Data::data', 1),
            Rule('T-INST-Storage-head', r'template< typename T, class E = std::invalid_argument> class Storage', 'class Storage', 1),
            Rule('T-INST-tmpl', r'template< typename T, typename E>\s*', '', (9, 12)),
            Rule('T-INST-qual', r'(typename )?Storage< T, E>::', 'Storage::', (15, 30)),
            Rule('R-ALIAS-cont', r'using cont_t = std::vector< Data>;', 'typedef std::vector< Data> cont_t;', 1),
            Rule('R-ALIAS-iter', r'using const_iterator = typename cont_t::const_iterator;', 'typedef Data* const_iterator;', 1),
            Rule('R-RFOR', r'for \(const auto& entry : mArgs\)\n      \{', 'for (Data* cv_it = mArgs.begin(); cv_it != mArgs.end(); ++cv_it)\n      {  const Data& entry = *cv_it;', 1),
            Rule('R-THROW', THROW_RX, 'CV_THROW( 2);', 2, flags=re.M | re.S),
            Rule('R-ACCESS', r'^private:', 'public:', 2)], pre=pre_s)
        # ---- ArgumentContainer: function-level extraction of addArgument and findArg
        src = open(os.path.join(core.SRC, 'library/prog_args/detail/argument_container.cpp')).read()
        bodies = []
        for name, sig in (('ArgumentContainer', r'ArgumentContainer::ArgumentContainer\( bool abbr_allowed, bool stores_sub_args /\* = false \*/\):\n(?:   m\w+\([^\n]*\),?\n)+'),
                          ('addArgument', r'void ArgumentContainer::addArgument\( TypedArgBase\* arg_handler,\s*const ArgumentKey& key\)'),
                          ('findArg', r'TypedArgBase\* ArgumentContainer::findArg\( const ArgumentKey& key\) const')):
            m = re.search(r'^' + sig + (r'' if name == 'ArgumentContainer' else r'\n') + r'\{.*?^\} // ArgumentContainer::' + name + r'\n', src.replace('\r', ''), flags=re.M | re.S)
            if not m:
                raise Undecided('extraction: ArgumentContainer::%s not found in argument_container.cpp' % name)
            bodies.append(m.group(0))
        body = '\n'.join(bodies)
        body, n = re.subn(r'for \(auto const& argi : mArguments\)\n   \{', 'for (Data* cv_it = mArguments.begin(); cv_it != mArguments.end(); ++cv_it)\n   {  const Data& argi = *cv_it;', body)
        # R-ARROW (fires only if present): the front end has no user-defined operator->; p->f() on a shared_ptr is p.get()->f()
        body, n_arrow = re.subn(r'\.data\(\)->', '.data().get()->', body)
        body, k = re.subn(THROW_RX, 'CV_THROW( 3);', body, flags=re.M | re.S)
        if k != 1 or n < 1:
            raise Undecided('extraction: ArgumentContainer slice rules fired R-RFOR %d (>=1), R-THROW %d (1)' % (n, k))
        hdr = open(os.path.join(core.SRC, 'celma/prog_args/detail/argument_container.hpp')).read()
        for decl in ('mArguments', 'mAbbrAllowed', 'mStoreSubArgs', 'shared_handler_t'):
            if not re.search(r'\b%s\b' % decl, hdr):
                raise Undecided('extraction: member %s no longer declared in argument_container.hpp' % decl)
        shell = ('// generated class shell: only the members used by the two sliced functions (declarations as in argument_container.hpp)\n'
                 'namespace celma { namespace prog_args { namespace detail {\nclass ArgumentContainer { public:\n'
                 '   ArgumentContainer( bool abbr_allowed, bool stores_sub_args = false);\n'
                 '   void addArgument( TypedArgBase* arg_handler, const ArgumentKey& key);\n   TypedArgBase* findArg( const ArgumentKey& key) const;\n'
                 '   typedef std::shared_ptr< TypedArgBase> shared_handler_t;\n   Storage  mArguments;\n   bool  mAbbrAllowed;\n   bool  mStoreSubArgs;\n};\n' + body + '\n}}}\n')
        scratch.write('shadow/gen_argument_container_slice.cpp', shell)
        sh.report.append({'file': 'library/prog_args/detail/argument_container.cpp (function-level: constructor, addArgument, findArg)',
                          'rules': {'R-RFOR': n, 'R-THROW': k, 'slice': 3}, 'diff_lines': 0, 'lines': src.count('\n')})
        sh.dropped += ['ArgumentContainer: every member except addArgument and findArg (checkMandatoryCardinality, checkArgMix, usage printing ...)',
                       'Handler::addArgument (forwards to ArgumentContainer::addArgument)']
        self.hpath = scratch.write('gen/h05.cpp', HARNESS)

    def clause_text(self, o):
        return None


HARNESS = r'''// generated harness for C05 (harness mode, bounded): -DNARGS=<stored arguments> -DKLEN=<max long key length>
#include <cstdint>
#include <string>
#include <vector>
#include <memory>
#include <stdexcept>
#include <algorithm>
extern "C" { int cv_thrown; int cv_may_throw; }
// a throw ends the call.  Whether a refusal is allowed for the inputs is decided by the specification BEFORE the call
// (cv_may_throw), so both directions are obligations: "refused although it must be accepted" fails at the throw site,
// "accepted although it must be refused" fails behind the call.
#define CV_THROW(k) { __CPROVER_assert(cv_may_throw, "unexpected refusal: an exception is thrown for an input that must be accepted"); cv_thrown = (k); __CPROVER_assume(0); }
// the argument handler objects are opaque to the two functions (only their address is stored and returned)
// their public state queries exist with arbitrary answers: the selected argument must not depend on them
namespace celma { namespace prog_args { namespace detail { class TypedArgBase { public: int cv_id; bool cv_hidden, cv_deprecated, cv_replaced, cv_mandatory;
  bool isHidden() const { return cv_hidden; } bool isDeprecated() const { return cv_deprecated; } bool isReplaced() const { return cv_replaced; } bool isMandatory() const { return cv_mandatory; } }; }}}
#define CV_HANDLE std::shared_ptr< celma::prog_args::detail::TypedArgBase>
#include "celma/prog_args/detail/argument_key.hpp"
#include "library/prog_args/detail/argument_key.cpp"
#include "celma/prog_args/detail/storage.hpp"
#include "gen_argument_container_slice.cpp"
using namespace celma::prog_args::detail;
#define CANARY __CPROVER_assert(0, "CV_CANARY")

// ---- abstract keys: short character (0 = none) over {x,y,z}, long word (length 0 = none, else 2..KLEN) over {a,b}
struct AKey { char sh; size_t ln; char w[KLEN]; };
// (short 0, length 0) is the positional key, the one the specification "-" yields
static void mk_akey(AKey& k) { unsigned char cvin_seq_s; size_t cvin_seq_n; __CPROVER_assume(cvin_seq_s <= 3 && (cvin_seq_n == 0 || (2 <= cvin_seq_n && cvin_seq_n <= KLEN)));
  k.sh = cvin_seq_s == 0 ? 0 : (char)('w' + cvin_seq_s); k.ln = cvin_seq_n; for (int i = 0; i < KLEN; ++i) { unsigned char cvin_seq_b; k.w[i] = (cvin_seq_b & 1) ? 'b' : 'a'; } }
static bool same_long(const AKey& a, const AKey& b) { if (a.ln == 0 || a.ln != b.ln) return false; for (int i = 0; i < KLEN; ++i) if ((size_t)i < a.ln && a.w[i] != b.w[i]) return false; return true; }
static bool same_short(const AKey& a, const AKey& b) { return a.sh != 0 && a.sh == b.sh; }
static bool is_pos(const AKey& a) { return a.sh == 0 && a.ln == 0; }
static bool same_pos(const AKey& a, const AKey& b) { return is_pos(a) && is_pos(b); }
static bool is_prefix(const AKey& p, const AKey& k) { if (p.ln == 0 || k.ln == 0 || p.ln > k.ln) return false; for (int i = 0; i < KLEN; ++i) if ((size_t)i < p.ln && p.w[i] != k.w[i]) return false; return true; }
static void to_key(ArgumentKey& k, const AKey& a) { k.mChar = a.sh; k.mWord.mLen = a.ln; for (int i = 0; i < KLEN; ++i) k.mWord.mData[i] = ((size_t)i < a.ln) ? a.w[i] : 0; k.mWord.mData[a.ln] = 0; }
static TypedArgBase cv_handlers[NARGS + 1];
static TypedArgBase* handle(int i) { return &cv_handlers[i]; }

extern "C" {
// ArgumentKey( spec): accepts exactly the documented forms and yields (short, long); everything else is refused
void h_key_ctor() {
  AKey a; mk_akey(a); unsigned char cvin_form; bool cvin_d1, cvin_d2; __CPROVER_assume(cvin_form <= 2);
  // forms: 0 = single key (short or long), 1 = "short,long", 2 = "long,short"; dashes optional on either part
  std::string spec; bool both = a.sh != 0 && a.ln != 0;
  __CPROVER_assume(cvin_form == 0 ? !both : both);
  if (is_pos(a)) spec.append(1, '-');   // the positional argument
  else if (cvin_form == 0) { if (a.sh != 0) { if (cvin_d1) spec.append(1, '-'); spec.append(1, a.sh); } else { if (cvin_d1) spec.append(2, '-'); for (int i = 0; i < KLEN; ++i) if ((size_t)i < a.ln) spec.append(1, a.w[i]); } }
  else { bool lf = cvin_form == 2;
    for (int part = 0; part < 2; ++part) { bool lng = (part == 0) == lf; bool d = part == 0 ? cvin_d1 : cvin_d2; if (part == 1) spec.append(1, ',');
      if (lng) { if (d) spec.append(2, '-'); for (int i = 0; i < KLEN; ++i) if ((size_t)i < a.ln) spec.append(1, a.w[i]); } else { if (d) spec.append(1, '-'); spec.append(1, a.sh); } } }
  cv_may_throw = 0; cv_thrown = 0;
  ArgumentKey k( spec);
  __CPROVER_assert(k.mChar == a.sh, "ArgumentKey(spec): short key is the single-character part");
  __CPROVER_assert(k.mWord.mLen == a.ln, "ArgumentKey(spec): long key has the length of the word part");
  for (int i = 0; i < KLEN; ++i) if ((size_t)i < a.ln) __CPROVER_assert(k.mWord.mData[i] == a.w[i], "ArgumentKey(spec): long key is the word part, dashes removed");
  CANARY; }
void h_key_ctor_bad() {   // malformed specifications are refused
  unsigned char cvin_bad; __CPROVER_assume(cvin_bad <= 6); std::string spec;
  const char* bad[7] = { "", ",", "a b", "---a", "a,b", "ab,cd", "a,bc,d" };
  spec = std::string( bad[cvin_bad]);
  cv_may_throw = 1; cv_thrown = 0;
  CANARY;   /* reachability of the call (every path must end in a throw, so nothing behind the call is reachable) */
  ArgumentKey k( spec);
  __CPROVER_assert(0, "malformed key specification is refused (empty, lone comma, blank, three dashes, two short, two long, two commas)");
}
// key relations used by storage and lookup
void h_key_relations() {
  AKey a, b; mk_akey(a); mk_akey(b); ArgumentKey ka('\0'), kb('\0'); to_key(ka, a); to_key(kb, b);
  bool eq = (ka == kb), mm = ka.mismatch(kb), sw = ka.startsWith(kb);
  bool both_s = a.sh != 0 && b.sh != 0, both_l = a.ln != 0 && b.ln != 0;
  __CPROVER_assert(eq == (both_s ? a.sh == b.sh : (both_l ? same_long(a, b) : same_pos(a, b))), "operator==: short keys decide when both have one, else the long keys; the positional key equals only the positional key");
  __CPROVER_assert(mm == (both_s && both_l && ((a.sh == b.sh) != same_long(a, b))), "mismatch: exactly one of short / long key agrees");
  __CPROVER_assert(sw == is_prefix(b, a), "startsWith: the other long key is a prefix of this long key");
  __CPROVER_assert((eq || mm) == (same_short(a, b) || same_long(a, b) || same_pos(a, b)) || !(both_s || both_l) || (!both_s && !both_l), "a shared short or long key is detected by == or mismatch when the keys are comparable");
  CANARY; }

// store of NARGS_IN arguments satisfying the invariant "all short keys distinct, all long keys distinct"
#define MKSTORE(ac, keys, cnt) unsigned char cvin_ctor; ArgumentContainer ac( (cvin_ctor & 1) != 0, (cvin_ctor & 2) != 0 /* container of sub-group arguments */); AKey keys[NARGS]; size_t cnt; { __CPROVER_assume(cnt <= NARGS_IN); ac.mArguments.mArgs.mSize = cnt; \
  for (int i = 0; i < NARGS; ++i) { mk_akey(keys[i]); to_key(ac.mArguments.mArgs.mItems[i].mKey, keys[i]); ac.mArguments.mArgs.mItems[i].mData.mP = handle(i); { unsigned char cvin_seq_f; cv_handlers[i].cv_hidden = (cvin_seq_f & 1) != 0; cv_handlers[i].cv_deprecated = (cvin_seq_f & 2) != 0; cv_handlers[i].cv_replaced = (cvin_seq_f & 4) != 0; cv_handlers[i].cv_mandatory = (cvin_seq_f & 8) != 0; } } \
  for (int i = 0; i < NARGS; ++i) for (int j = 0; j < NARGS; ++j) if (i < j && (size_t)j < cnt) __CPROVER_assume(!same_short(keys[i], keys[j]) && !same_long(keys[i], keys[j]) && !same_pos(keys[i], keys[j])); }

// addArgument: refused iff the short or the long key is already taken (this includes contradicting pairs);
// otherwise appended, earlier entries unchanged
void h_add() {
#define NARGS_IN (NARGS - 1)
  MKSTORE(ac, keys, cnt)
#undef NARGS_IN
  AKey nk; mk_akey(nk); ArgumentKey k('\0'); to_key(k, nk);
  bool taken = false; for (int i = 0; i < NARGS; ++i) if ((size_t)i < cnt && (same_short(keys[i], nk) || same_long(keys[i], nk) || same_pos(keys[i], nk))) taken = true;
  cv_may_throw = taken; cv_thrown = 0;
  ac.addArgument( handle(NARGS), k);
  __CPROVER_assert(!taken, "defining an argument whose short or long key is already taken (or whose pair contradicts an existing pair) is refused");
  __CPROVER_assert(ac.mArguments.mArgs.mSize == cnt + 1, "accepted definition is stored");
  __CPROVER_assert(ac.mArguments.mArgs.mItems[cnt].mData.mP == handle(NARGS) && ac.mArguments.mArgs.mItems[cnt].mKey.mChar == nk.sh && ac.mArguments.mArgs.mItems[cnt].mKey.mWord.mLen == nk.ln, "the new entry holds the key and the handler");
  for (int i = 0; i < NARGS; ++i) if ((size_t)i < cnt) __CPROVER_assert(ac.mArguments.mArgs.mItems[i].mData.mP == handle(i) && ac.mArguments.mArgs.mItems[i].mKey.mChar == keys[i].sh && ac.mArguments.mArgs.mItems[i].mKey.mWord.mLen == keys[i].ln, "earlier entries are unchanged");
  CANARY; }

// findArg: an exact key selects its own argument whatever the definition order; a proper prefix selects an argument
// only with abbreviations enabled and exactly one long key starting with it, is ambiguous (throws) with several, else unknown
void h_find() {
#define NARGS_IN NARGS
  MKSTORE(ac, keys, cnt)
#undef NARGS_IN
  unsigned char cvin_abbr = cvin_ctor;   /* abbreviations as given to the constructor */
  AKey q; mk_akey(q); __CPROVER_assume(!(q.sh != 0 && q.ln != 0));   // a command-line key is a short or a long key, or the positional key (looked up for a free value)
  if (q.ln == 1) q.ln = 2;
  ArgumentKey k('\0'); to_key(k, q);
  int exact = -1, nprefix = 0, pfx = -1;
  for (int i = 0; i < NARGS; ++i) if ((size_t)i < cnt) { if (same_short(keys[i], q) || same_long(keys[i], q) || same_pos(keys[i], q)) exact = i; else if (q.ln != 0 && is_prefix(q, keys[i])) { ++nprefix; pfx = i; } }
  bool abbr = ac.mAbbrAllowed;
  bool ambiguous = exact < 0 && abbr && nprefix > 1;
  cv_may_throw = ambiguous; cv_thrown = 0;
  TypedArgBase* r = ac.findArg( k);
  __CPROVER_assert(!ambiguous, "a prefix of several long keys (and no exact key) is rejected as ambiguous");
  if (exact >= 0) __CPROVER_assert(r == handle(exact), "an exact key selects its own argument, regardless of the order in which arguments were defined");
  else if (abbr && nprefix == 1) __CPROVER_assert(r == handle(pfx), "a proper prefix of exactly one long key selects that argument (abbreviations enabled)");
  else __CPROVER_assert(r == 0, "unknown key (or abbreviation while abbreviations are disabled): no argument");
  CANARY; }
}
'''

HARNESSES = [('key_ctor', 'ArgumentKey::ArgumentKey(const std::string&) (accepted forms)'), ('key_ctor_bad', 'ArgumentKey::ArgumentKey(const std::string&) (refused forms)'),
             ('key_relations', 'ArgumentKey::operator== / mismatch / startsWith'), ('add', 'Storage::addArgument via ArgumentContainer::addArgument'),
             ('find', 'ArgumentContainer::findArg')]


def make_build(unit, h, nargs, klen):
    def build(job, wd):
        core.goto_cc(['-nostdinc', '-I', core.STUBS, '-I', unit.shadow.root, '-DCV_STRING_INLINE', '-DCV_STR_CAP=%d' % (2 * klen + 6), '-DCV_VEC_CAP=%d' % (nargs + 1),
                      '-DNARGS=%d' % nargs, '-DKLEN=%d' % klen, unit.hpath, '-o', 'cpp.gb'], wd, 'C05 harness TU')
        # a C translation unit is linked in so that the C front end's internal symbols (__CPROVER_memory) exist:
        # symex of the C++-only binary aborts without them (measured)
        open(os.path.join(wd, 'empty.c'), 'w').write('int cv_c_internal_additions_anchor;\n')
        core.goto_cc(['empty.c', '-o', 'c.gb'], wd, 'anchor C unit')
        core.goto_cc(['cpp.gb', 'c.gb', '--function', 'h_' + h, '-o', 'h.gb'], wd, 'link')
        return os.path.join(wd, 'h.gb')
    return build


def jobs(unit, tier, only=None):
    nargs, klen = (3, 3) if tier == 'quick' else (4, 4)
    from .check import load_known_findings
    out = []
    for h, fn in HARNESSES:
        out.append(Job('c05_%s' % h, fn, 'key uniqueness / lookup (harness)', make_build(unit, h, nargs, klen), backend='sat', unwind=2 * klen + 8, timeout=1500,
                       mode='harness', object_bits=10, instance={'stored_arguments': nargs, 'long_key_length': klen},
                       bounded='<= %d stored arguments, long keys of 2..%d letters over {a,b}, short keys over {x,y,z}' % (nargs, klen),
                       extra_flags=['--drop-unused-functions'], need_postcondition=True))
    if only:
        out = [j for j in out if only in j.name]
    return out


def replay(unit, job, o, inputs, scratch):
    kind = job.name[4:]
    if kind not in ('add', 'find', 'key_ctor'):
        return {'outcome': 'unavailable', 'detail': 'no native replay for this C05 harness (inputs are in counterexample_inputs)'}
    klen = job.instance['long_key_length']
    ss = [x for x in inputs.get('cvin_seq_s', []) if isinstance(x, int)]
    ns = [x for x in inputs.get('cvin_seq_n', []) if isinstance(x, int)]
    bs = [x for x in inputs.get('cvin_seq_b', []) if isinstance(x, int)]
    keys = []
    for i in range(min(len(ss), len(ns))):
        w = ''.join('b' if (b & 1) else 'a' for b in bs[i * klen:(i + 1) * klen])[:max(0, min(ns[i], klen))]
        fl = [x for x in inputs.get('cvin_seq_f', []) if isinstance(x, int)]
        keys.append('%s:%s:%d' % (chr(ord('w') + ss[i]) if 0 < ss[i] <= 3 else '-', w or '-', (fl[i] & 15) if i < len(fl) else 0))

    def gi(k, d=0):
        v = inputs.get(k, d)
        return v if isinstance(v, int) else d
    if kind == 'add':
        cnt = min(gi('cnt'), len(keys) - 1)
        args = ['add'] + ['key=' + k for k in keys[:cnt]] + ['key=' + keys[-1], 'abbr=%d' % (gi('cvin_ctor') & 1), 'sub=%d' % ((gi('cvin_ctor') >> 1) & 1)]
    elif kind == 'find':
        cnt = min(gi('cnt'), len(keys) - 1)
        q = keys[-1]
        sh, ln = q.split(':')[:2]
        if sh != '-' and ln != '-':
            q = q
        args = ['find'] + ['key=' + k for k in keys[:cnt]] + ['q=' + q, 'abbr=%d' % (gi('cvin_ctor') & 1), 'sub=%d' % ((gi('cvin_ctor') >> 1) & 1)]
    else:
        return {'outcome': 'unavailable', 'detail': 'key constructor counterexamples are replayed by hand (spec text in counterexample_inputs)'}
    exe = scratch.path('replay', 'c05')
    if not os.path.exists(exe):
        S = core.SRC
        cmd = ['g++', '-std=c++17', '-O0', '-g', '-w', '-fno-access-control', '-ffunction-sections', '-fdata-sections', '-I', S, os.path.join(core.VERIF, 'replay', 'c05.cpp')] + \
              [os.path.join(S, 'library/prog_args/detail', f) for f in ('argument_key.cpp', 'argument_container.cpp', 'typed_arg_base.cpp', 'cardinality_max.cpp')] + ['-Wl,--gc-sections', '-o', exe]
        rc, out, err, s = core.run(cmd, timeout=600, limit=False)
        if rc != 0:
            return {'outcome': 'unavailable', 'detail': 'replay build failed: ' + err[-800:]}
    rc, out, err, s = core.run([exe] + args, timeout=60, limit=False)
    return {'outcome': 'reproduced' if rc != 0 else 'not-reproduced', 'cmd': 'replay/c05.cpp: ' + ' '.join(args), 'args': {'argv': args}, 'output': (out + err).strip()[-1000:]}


def replay_record(rec, scratch):
    return {'outcome': 'unavailable', 'detail': 're-run the cmd recorded in native_replay.cmd with replay/c05.cpp (build line in cvlib/c05.py)'}


def evidence_info(unit, tier):
    return {
        'explanation': 'BOUNDED: keys are drawn from short keys {none,x,y,z} and long keys of 2..KLEN letters over {a,b} (every prefix relation occurs) plus the positional key "-" (no short key, no word), '
                       'the store holds up to NARGS arguments in a symbolic order satisfying the store invariant (short keys distinct, long keys distinct), '
                       'abbreviations enabled and disabled, the container built by its real constructor as ordinary and as sub-group container, the stored handlers answering isHidden/isDeprecated/isReplaced/isMandatory arbitrarily (the result must not depend on them). Obligations: ArgumentKey(spec) yields (short,long) for every documented form and refuses malformed '
                       'specifications; ==, mismatch, startsWith against their definition; addArgument refuses exactly the taken/contradicting keys and '
                       'otherwise appends leaving earlier entries unchanged (so the invariant is inductive); findArg returns the exact entry whatever the '
                       'order, the unique prefix entry with abbreviations, throws for an ambiguous prefix, null otherwise. Refusal = throw; whether a throw '
                       'is allowed is fixed by the specification before the call, so wrongly refused and wrongly accepted inputs both fail an obligation.',
        'trusted_base': ['CBMC 6.11 C++ front end on the shadow units (T-INST of Data/Storage, function-level slice of ArgumentContainer, rules listed under extraction)',
                         'stand-in <string> (inline flavour), <vector>, <memory> (shared_ptr as plain holder), <algorithm>', 'MiniSat'],
        'assumptions': ['bounded key alphabet / lengths / number of arguments', 'Handler::addArgument and the remaining ArgumentContainer members are not under contract',
                        'a throw ends the path (no exception object modelled)'],
        'not_under_contract': list(unit.shadow.dropped),
    }
