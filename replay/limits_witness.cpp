// witness for stubs/limits: the constants of the stand-in equal those of the platform's <limits> (compiled by `cv setup`, never run)
#include <limits>
#define W( T, SIGNED, DIGITS, DIGITS10) static_assert( std::numeric_limits< T>::is_signed == SIGNED && std::numeric_limits< T>::digits == DIGITS \
   && std::numeric_limits< T>::digits10 == DIGITS10 && std::numeric_limits< T>::is_integer, #T);
W( bool, false, 1, 0) W( char, true, 7, 2) W( signed char, true, 7, 2) W( unsigned char, false, 8, 2) W( short, true, 15, 4)
W( unsigned short, false, 16, 4) W( int, true, 31, 9) W( unsigned int, false, 32, 9) W( long, true, 63, 18) W( unsigned long, false, 64, 19)
W( long long, true, 63, 18) W( unsigned long long, false, 64, 19)
int main() { return 0; }
