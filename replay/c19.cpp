// Native replay for C19: real read_buffer.hpp / write_buffer.hpp, g++ -fsanitize=address,undefined -fno-access-control
// -DCV_N=<N> -DCV_COUNT=<0|1>.   argv: kind key=value ...   kind in {rb_get, wb_append, wb_flush, wb_buffered, rb_ctor, wb_ctor}
#include "celma/common/read_buffer.hpp"
#include "celma/common/write_buffer.hpp"
#include <cstdio>
#include <cstdlib>
#include <map>
#include <string>
#include <vector>
using namespace celma::common;
#if CV_COUNT
typedef ReadCountPolicy RP; typedef WriteCountPolicy WP;
#else
typedef EmptyReadPolicy RP; typedef EmptyWritePolicy WP;
#endif
static std::map<std::string, std::string> A;
static size_t Z(const char* k, size_t d = 0) { return A.count(k) ? strtoull(A[k].c_str(), 0, 10) : d; }
static unsigned char STREAM(size_t i) { return (unsigned char)(i * 37 + 11); }
static int fail(const char* w) { printf("REPRODUCED: %s\n", w); return 1; }
struct RB : ReadBuffer<CV_N, RP> {
  std::vector<size_t> chunks; size_t next = 0, srcpos = 0; bool bad_window = false, zero_req = false;
  size_t readData(unsigned char* d, size_t len) override {
    if (len == 0) { zero_req = true; return 1; }
    unsigned char* base = this->mpBuffer.get();
    if (d < base || d + len > base + CV_N) { bad_window = true; len = (d >= base && d < base + CV_N) ? (size_t)(base + CV_N - d) : 0; if (len == 0) return 1; }
    size_t r = next < chunks.size() ? chunks[next++] : len; if (r < 1) r = 1; if (r > len) r = len;
    for (size_t i = 0; i < r; ++i) d[i] = STREAM(srcpos + i);
    srcpos += r; return r; } };
struct WB : WriteBuffer<CV_N, WP> {
  mutable std::vector<unsigned char> sink; mutable size_t calls = 0; mutable bool zero = false;
  void writeData(const unsigned char* const d, size_t len) const override { if (len == 0) zero = true; sink.insert(sink.end(), d, d + len); ++calls; } };
int main(int argc, char** argv) {
  if (argc < 2) return 2; std::string kind = argv[1];
  for (int i = 2; i < argc; ++i) { std::string a = argv[i]; size_t e = a.find('='); if (e != std::string::npos) A[a.substr(0, e)] = a.substr(e + 1); }
  if (kind == "rb_ctor") { RB rb; if (rb.mDataStart != 0 || rb.mDataEnd != 0) return fail("constructor does not establish an empty window"); }
  else if (kind == "wb_ctor") { WB wb; if (wb.mWritePos != 0) return fail("constructor does not establish an empty buffer"); }
  else if (kind == "rb_get") {
    RB rb; size_t s = Z("s"), e = Z("e"), len = Z("len"); bool null = Z("null");
    std::string c = A["chunks"]; for (size_t p = 0; p < c.size();) { size_t q = c.find(',', p); if (q == std::string::npos) q = c.size(); if (q > p) rb.chunks.push_back(strtoull(c.substr(p, q - p).c_str(), 0, 10)); p = q + 1; }
    if (!(s <= e && e <= CV_N)) { printf("NOT-REPRODUCED: precondition INV_R violated by the inputs\n"); return 0; }
    rb.mDataStart = s; rb.mDataEnd = e; rb.srcpos = e - s; for (size_t i = s; i < e; ++i) rb.mpBuffer[i] = STREAM(i - s);
    unsigned char* out = null ? nullptr : (unsigned char*)malloc(len ? len : 1);   // exactly len bytes: ASan sees overruns
    bool thrown = false; try { rb.get(out, len); } catch (const std::exception&) { thrown = true; }
    if (rb.bad_window) return fail("readData was offered a window outside the internal buffer");
    if (rb.zero_req) return fail("readData was asked for 0 bytes");
    if (len == 0) { if (thrown || rb.mDataStart != s || rb.mDataEnd != e) return fail("get(len 0) changed the state"); }
    else if (null || len > CV_N) { if (!thrown) return fail("oversized / null request not refused"); if (rb.mDataStart != s || rb.mDataEnd != e || rb.srcpos != e - s) return fail("refused request changed the state"); }
    else { if (thrown) return fail("in-range request refused");
      for (size_t i = 0; i < len; ++i) if (out[i] != STREAM(i)) { printf("REPRODUCED: get(): byte %zu of the request is %u, the source stream has %u\n", i, out[i], STREAM(i)); return 1; }
      if (!(rb.mDataStart <= rb.mDataEnd && rb.mDataEnd <= CV_N)) return fail("window outside the buffer after get");
      for (size_t i = rb.mDataStart; i < rb.mDataEnd; ++i) if (rb.mpBuffer[i] != STREAM(len + (i - rb.mDataStart))) return fail("buffered window no longer mirrors the source");
      if (rb.srcpos != len + (rb.mDataEnd - rb.mDataStart)) return fail("bytes lost or duplicated: source position != consumed + buffered");
#if CV_COUNT
      if (rb.numBufferReads() != 1 || rb.bytesReadFromBuffer() != len || rb.bytesReadFromSource() != rb.srcpos - (e - s)) return fail("ReadCountPolicy counters wrong");
#endif
    }
    free(out);
  } else {
    WB wb; size_t pos = Z("pos"), snk0 = Z("snk0"), len = Z("len"); bool null = Z("null");
    if (pos > CV_N) { printf("NOT-REPRODUCED: precondition INV_W violated by the inputs\n"); return 0; }
    for (size_t i = 0; i < snk0; ++i) wb.sink.push_back(STREAM(i));
    wb.mWritePos = pos; for (size_t i = 0; i < pos; ++i) wb.mpBuffer[i] = STREAM(snk0 + i);
    size_t app = snk0 + pos;
    if (kind == "wb_append") {
      unsigned char* d = null ? nullptr : (unsigned char*)malloc(len ? len : 1); if (d) for (size_t i = 0; i < len; ++i) d[i] = STREAM(app + i);
      bool thrown = false; try { wb.append(d, len); } catch (const std::exception&) { thrown = true; }
      if (len == 0) { if (thrown || wb.mWritePos != pos || wb.sink.size() != snk0) return fail("append(len 0) changed the state"); }
      else if (null) { if (!thrown || wb.mWritePos != pos || wb.sink.size() != snk0) return fail("append(null) not refused cleanly"); }
      else { if (thrown) return fail("append refused"); app += len;
        if (len >= CV_N && (wb.mWritePos != 0 || wb.sink.size() != app)) return fail("oversized block not passed through after flushing"); }
      free(d);
    } else if (kind == "wb_flush") { wb.flush(); if (wb.mWritePos != 0 || wb.sink.size() != app) return fail("flush did not deliver everything"); if (wb.calls != (pos > 0 ? 1u : 0u)) return fail("flush: wrong number of writes"); }
    else if (kind == "wb_buffered") { if (wb.buffered() != pos) return fail("buffered() wrong"); }
    if (wb.zero) return fail("writeData called with 0 bytes");
    if (wb.mWritePos > CV_N) return fail("write position outside the buffer");
    if (!(kind == "wb_append" && (null || len == 0)) || true) {
      if (wb.sink.size() + wb.mWritePos != app) return fail("sink ++ buffered has not the length of everything appended (lost or duplicated bytes)");
      for (size_t i = 0; i < wb.sink.size(); ++i) if (wb.sink[i] != STREAM(i)) { printf("REPRODUCED: sink byte %zu is %u, appended stream has %u (order/content broken)\n", i, wb.sink[i], STREAM(i)); return 1; }
      for (size_t i = 0; i < wb.mWritePos; ++i) if (wb.mpBuffer[i] != STREAM(wb.sink.size() + i)) return fail("buffered tail does not hold the not yet flushed bytes in order");
    }
  }
  printf("NOT-REPRODUCED: real code satisfies the contract on this input\n"); return 0;
}
