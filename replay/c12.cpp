// Native replay for C12: real dynamic_bitset.cpp + headers, libstdc++ with _GLIBCXX_ASSERTIONS (vector<bool>::operator[] range
// assertion), ASan/UBSan.  argv: op key=value ...   bits=<0/1 string, index 0 first> obits=<...> pos= k= v=
#include "library/container/dynamic_bitset.cpp"
#include <bitset>
#include <cstdio>
#include <cstdlib>
#include <map>
#include <string>
#include <vector>
using celma::container::DynamicBitset;
static std::map<std::string, std::string> A;
static size_t Z(const char* k, size_t d = 0) { return A.count(k) ? strtoull(A[k].c_str(), 0, 10) : d; }
static std::vector<bool> V(const char* k) { std::vector<bool> r; for (char c : A[k]) r.push_back(c == '1'); return r; }
static int fail(const std::string& w) { printf("REPRODUCED: %s\n", w.c_str()); return 1; }
static std::string S(const DynamicBitset& d) { std::string s; for (size_t i = 0; i < d.size(); ++i) s += d.test(i) ? '1' : '0'; return s; }
static std::string S(const std::vector<bool>& d) { std::string s; for (bool b : d) s += b ? '1' : '0'; return s; }
int main(int argc, char** argv) {
  if (argc < 2) return 2; std::string op = argv[1];
  for (int i = 2; i < argc; ++i) { std::string a = argv[i]; size_t e = a.find('='); if (e != std::string::npos) A[a.substr(0, e)] = a.substr(e + 1); }
  std::vector<bool> b = V("bits"), c = V("obits"); DynamicBitset d(b), o(c); size_t n = b.size(), m = c.size(), pos = Z("pos"), k = Z("k"); bool v = Z("v");
  auto bit = [&](const std::vector<bool>& x, size_t i) { return i < x.size() ? (bool)x[i] : false; };
  try {
  if (op == "assign_vec") { d = c; if (d.size() != m || S(d) != S(c)) return fail("operator=(vector<bool>): " + S(d) + " != " + S(c)); }
  else if (op == "ctor_bitset" || op == "assign_bitset") { std::bitset<11> bs; for (size_t i = 0; i < 11; ++i) bs[i] = bit(c, i); std::vector<bool> e; for (size_t i = 0; i < 11; ++i) e.push_back(bs[i]);
    if (op == "ctor_bitset") { DynamicBitset x(bs); if (S(x) != S(e)) return fail("DynamicBitset(bitset<11>): " + S(x) + " != " + S(e)); } else { d = bs; if (S(d) != S(e)) return fail("operator=(bitset<11>): " + S(d) + " != " + S(e)); } }
  else if (op == "test" || op == "index_const") { bool thrown = false, r = false; try { r = (op == "test") ? d.test(pos) : static_cast<const DynamicBitset&>(d)[pos]; } catch (const std::out_of_range&) { thrown = true; }
    if (pos < n ? (thrown || r != b[pos]) : !thrown) return fail(op + ": wrong result / missing exception"); }
  else if (op == "queries") { size_t cnt = 0; for (bool x : b) cnt += x; if (d.size() != n || d.count() != cnt || d.any() != (cnt > 0) || d.none() != (cnt == 0) || d.all() != (cnt == n)) return fail("size/count/any/none/all disagree with the reference"); }
  else if (op == "to_ulong") { unsigned long e = 0; bool high = false; for (size_t i = 0; i < n; ++i) if (b[i]) { if (i >= 64) high = true; else e |= 1UL << i; }
    bool thrown = false; unsigned long r = 0; try { r = d.to_ulong(); } catch (const std::overflow_error&) { thrown = true; } if (high ? !thrown : (thrown || r != e)) return fail("to_ulong disagrees with the reference"); }
  else if (op == "set_pos" || op == "reset_pos" || op == "flip_pos" || op == "index_ref") { std::vector<bool> r = b; bool nv = (op == "set_pos" || op == "index_ref") ? v : (op == "reset_pos" ? false : !bit(b, pos));
    if (op == "set_pos") d.set(pos, v); else if (op == "reset_pos") d.reset(pos); else if (op == "flip_pos") d.flip(pos); else d[pos] = v;
    if (pos < n ? d.size() != n : d.size() <= pos) return fail(op + ": size after the call is " + std::to_string(d.size()));
    for (size_t i = 0; i < d.size(); ++i) if (d.test(i) != (i == pos ? nv : bit(b, i))) return fail(op + ": bit " + std::to_string(i) + " wrong: " + S(d)); }
  else if (op == "shr" || op == "shl") { DynamicBitset r = (op == "shr") ? (d >> k) : (d << k); if (op == "shr") d >>= k; else d <<= k;
    size_t rs = (op == "shr" || n == 0 || k == 0) ? n : n + k; std::string e; for (size_t i = 0; i < rs; ++i) e += ((op == "shr") ? (k < n && i < n - k && b[i + k]) : (k == 0 ? bit(b, i) : (i >= k && bit(b, i - k)))) ? '1' : '0';
    if (S(d) != e) return fail(op + "= gives " + S(d) + ", reference " + e); if (S(r) != e) return fail("binary " + op + " gives " + S(r) + ", reference " + e); }
  else if (op == "and" || op == "or" || op == "xor") { DynamicBitset r = (op == "and") ? (d & o) : (op == "or") ? (d | o) : (d ^ o); if (op == "and") d &= o; else if (op == "or") d |= o; else d ^= o;
    size_t rs = (op == "and") ? n : std::max(n, m); std::string e; for (size_t i = 0; i < rs; ++i) { bool x = bit(b, i), y = bit(c, i); e += ((op == "and") ? (x && y) : (op == "or") ? (x || y) : (x != y)) ? '1' : '0'; }
    if (S(d) != e) return fail(op + "= gives " + S(d) + ", reference " + e); if (S(r) != e) return fail("binary " + op + " gives " + S(r) + ", reference " + e); }
  else if (op == "iter_begin" || op == "iter_next") { std::vector<size_t> exp, got; for (size_t i = 0; i < n; ++i) if (b[i]) exp.push_back(i); for (auto it = d.begin(); it != d.end(); ++it) { got.push_back(*it); if (got.size() > n + 1) break; } if (got != exp) return fail("forward iteration does not visit exactly the set positions in ascending order"); }
  else if (op == "riter_begin" || op == "riter_next") { std::vector<size_t> exp, got; for (size_t i = n; i-- > 0;) if (b[i]) exp.push_back(i); for (auto it = d.rbegin(); it != d.rend(); ++it) { got.push_back(*it); if (got.size() > n + 1) break; } if (got != exp) return fail("reverse iteration does not visit exactly the set positions in descending order"); }
  else if (op == "set_all" || op == "flip_all" || op == "not" || op == "reset_all") { if (op == "set_all") d.set(); else if (op == "flip_all") d.flip(); else if (op == "reset_all") d.reset(); DynamicBitset r = (op == "not") ? ~d : d;
    if (op == "reset_all") { if (r.count() != 0) return fail("reset() leaves bits set"); } else { if (r.size() != n) return fail(op + ": size changed"); for (size_t i = 0; i < n; ++i) if (r.test(i) != (op == "set_all" ? true : !b[i])) return fail(op + ": wrong bit"); } }
  else if (op == "eq") { if (n == m && (d == o) != (b == c)) return fail("operator== disagrees"); }
  else { printf("NOT-REPRODUCED: no replay for op %s\n", op.c_str()); return 0; }
  } catch (const std::exception& e) { return fail(std::string("unexpected exception: ") + e.what()); }
  printf("NOT-REPRODUCED: real code agrees with the reference bit vector on this input\n"); return 0;
}
