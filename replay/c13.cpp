// Native replay for C13: compiled by g++ against the REAL sources (no shadow, no stubs) with
// -fsanitize=address,undefined.  Build: -DCV_W=<8|16|32|64> -DCV_GROUPED=<0|1> -DCV_SRC="<real .cpp>"
// argv: kind value n0 gchar        kind in {strlen, convert, utos, negtos, itos, dutos, ditos (through int2string.hpp)}
// Evaluates the postcondition of the contract with an independent oracle (snprintf + grouping).
#include CV_SRC
#if !CV_GROUPED
#include "celma/format/int2string.hpp"   // public dispatch header (kinds dutos / ditos)
#else
#include "celma/format/grouped_int2string.hpp"
#endif
#include <cstdio>
#include <cstdlib>
#include <cstring>
#include <string>
#define CAT_(a,b,c) a##b##c
#define CAT(a,b,c) CAT_(a,b,c)
typedef CAT(uint, CV_W, _t) UT;
typedef CAT(int, CV_W, _t) ST;
using namespace celma::format::detail;
static std::string expect(unsigned long long absval, bool neg, bool grouped, char g) {
  char tmp[32]; snprintf(tmp, sizeof tmp, "%llu", absval);
  std::string d(tmp), out;
  int n = (int)d.size();
  for (int i = 0; i < n; ++i) { out += d[i]; int rest = n - 1 - i; if (grouped && rest > 0 && rest % 3 == 0) out += g; }
  return (neg ? "-" : "") + out;
}
static int fail(const char* what, const std::string& exp, const char* got, int ret) {
  printf("REPRODUCED: %s: expected \"%s\" (len %zu), got \"%s\" (returned %d)\n", what, exp.c_str(), exp.size(), got, ret); return 1; }
int main(int argc, char** argv) {
  if (argc < 5) return 2;
  std::string kind = argv[1];
  long long sv = strtoll(argv[2], 0, 10); unsigned long long uv = strtoull(argv[2], 0, 10);
  int n0 = atoi(argv[3]); char g = (char)atoi(argv[4]);
  const bool G = CV_GROUPED;
#if CV_GROUPED
  if (kind == "ddef_utos" || kind == "ddef_itos") {   // group character omitted: the buffer overload must write the text the std::string overload returns
    char buf[64]; int r; std::string t;
    if (kind == "ddef_utos") { r = celma::format::grouped_int2string(buf, (UT)uv); t = celma::format::grouped_int2string((UT)uv); }
    else { r = celma::format::grouped_int2string(buf, (ST)sv); t = celma::format::grouped_int2string((ST)sv); }
    if (t != buf || r != (int)t.size()) { printf("REPRODUCED: group character omitted: buffer overload writes \"%s\" (returns %d), std::string overload returns \"%s\"\n", buf, r, t.c_str()); return 1; }
    printf("NOT-REPRODUCED: both overloads agree on this input\n"); return 0; }
#endif
  if (kind == "strlen") {
    int r = CAT(int, CV_W, _str_length)((UT)uv); std::string e = expect((UT)uv, false, false, 0);
    if (r != (int)e.size()) return fail("str_length", e, "", r);
  } else if (kind == "convert") {
    std::string e = expect((UT)uv, false, G && CV_W != 8, g);
    if ((int)expect((UT)uv, false, false, 0).size() > n0) { printf("NOT-REPRODUCED: precondition value < 10^n0 violated by the inputs\n"); return 0; }
    // the contract speaks about n0 digits (leading zeros when the value is shorter)
    std::string digits = expect((UT)uv, false, false, 0); digits = std::string(n0 - digits.size(), '0') + digits;
    std::string full; for (int i = 0; i < n0; ++i) { full += digits[i]; int rest = n0 - 1 - i; if (G && CV_W != 8 && rest > 0 && rest % 3 == 0) full += g; }
    size_t L = full.size(); char* b = (char*)malloc(L);
#if CV_GROUPED && CV_W != 8
    convert(b + L - 1, (UT)uv, (uint8_t)n0, g);
#else
    convert(b + L - 1, (UT)uv, (uint8_t)n0);
#endif
    if (memcmp(b, full.data(), L) != 0) { std::string got(b, L); return fail("convert", full, got.c_str(), 0); }
    free(b);
  } else {
    bool disp = (kind == "dutos" || kind == "ditos"); if (disp) kind = kind.substr(1);
    bool neg = (kind == "negtos") || (kind == "itos" && sv < 0);
    unsigned long long a = neg ? (unsigned long long)(UT)(0 - (UT)sv) : (kind == "utos" ? (unsigned long long)(UT)uv : (unsigned long long)(UT)sv);
    if (kind == "negtos" && (ST)sv >= 0) { printf("NOT-REPRODUCED: precondition value < 0 violated\n"); return 0; }
    std::string e = expect(a, neg, G, g);
    char* b = (char*)malloc(e.size() + 1);   // exactly text + NUL: ASan reports any write beyond
    memset(b, 0x55, e.size() + 1);
    int r;
#if CV_GROUPED
    if (disp) r = (kind == "utos") ? celma::format::grouped_int2string(b, (UT)uv, g) : celma::format::grouped_int2string(b, (ST)sv, g);
    else if (kind == "utos") r = CAT(groupedUint, CV_W, toString)(b, (UT)uv, g);
    else if (kind == "negtos") r = CAT(groupedInt, CV_W, negToString)(b, (ST)sv, g);
    else r = CAT(groupedInt, CV_W, toString)(b, (ST)sv, g);
#else
    if (disp) r = (kind == "utos") ? celma::format::int2string(b, (UT)uv) : celma::format::int2string(b, (ST)sv);
    else if (kind == "utos") r = CAT(uint, CV_W, toString)(b, (UT)uv);
    else if (kind == "negtos") r = CAT(int, CV_W, negToString)(b, (ST)sv);
    else r = CAT(int, CV_W, toString)(b, (ST)sv);
#endif
    if (r != (int)e.size() || memcmp(b, e.c_str(), e.size() + 1) != 0) { b[e.size()] = 0; return fail(kind.c_str(), e, b, r); }
    // std::string variant of the same function must agree
    std::string s;
#if CV_GROUPED
    if (disp) s = (kind == "utos") ? celma::format::grouped_int2string((UT)uv, g) : celma::format::grouped_int2string((ST)sv, g);
    else if (kind == "utos") s = CAT(groupedUint, CV_W, toString)((UT)uv, g);
    else if (kind == "negtos") s = CAT(groupedInt, CV_W, negToString)((ST)sv, g);
    else s = CAT(groupedInt, CV_W, toString)((ST)sv, g);
#else
    if (disp) s = (kind == "utos") ? celma::format::int2string((UT)uv) : celma::format::int2string((ST)sv);
    else if (kind == "utos") s = CAT(uint, CV_W, toString)((UT)uv);
    else if (kind == "negtos") s = CAT(int, CV_W, negToString)((ST)sv);
    else s = CAT(int, CV_W, toString)((ST)sv);
#endif
    if (s != e) return fail("std::string variant", e, s.c_str(), (int)s.size());
    free(b);
  }
  printf("NOT-REPRODUCED: real code satisfies the contract on this input\n");
  return 0;
}
