// Native replay for ArgString2Array (C07 round trip / C04 construction): real sources, ASan/UBSan.
// argv: roundtrip lead=0|1 trail=0|1 w=<hex bytes>:<mode>:<per-char styles>:<sep> ...   |   ctor line=<hex> [name=<hex>]
#include "celma/appl/arg_string_2_array.hpp"
#include <cstdio>
#include <cstdlib>
#include <cstring>
#include <string>
#include <vector>
static std::string unhex(const std::string& h) { std::string r; for (size_t i = 0; i + 1 < h.size(); i += 2) r += (char)strtol(h.substr(i, 2).c_str(), 0, 16); return r; }
static bool special(char c) { return c == ' ' || c == '\'' || c == '"' || c == '\\'; }
int main(int argc, char** argv) {
  if (argc < 2) return 2; std::string kind = argv[1];
  if (kind == "roundtrip") {
    std::string line; std::vector<std::string> words; bool lead = false, trail = false;
    for (int i = 2; i < argc; ++i) { std::string a = argv[i];
      if (a.rfind("lead=", 0) == 0) { lead = a[5] == '1'; if (lead) line += ' '; continue; } if (a.rfind("trail=", 0) == 0) { trail = a[6] == '1'; continue; }
      if (a.rfind("w=", 0) != 0) continue; a = a.substr(2); size_t p1 = a.find(':'), p2 = a.find(':', p1 + 1), p3 = a.find(':', p2 + 1);
      std::string w = unhex(a.substr(0, p1)); int mode = atoi(a.substr(p1 + 1, p2 - p1 - 1).c_str()); std::string st = a.substr(p2 + 1, p3 - p2 - 1); int sep = atoi(a.substr(p3 + 1).c_str());
      if (!words.empty()) line += std::string(sep, ' '); words.push_back(w);
      if (mode == 1 || mode == 2) { char q = mode == 1 ? '\'' : '"'; line += q; for (char c : w) { if (c == q || c == '\\') line += '\\'; line += c; } line += q; }
      else for (size_t k = 0; k < w.size(); ++k) { char c = w[k]; int s = mode == 3 ? st[k] - '0' : 0;
        if (s == 2 || s == 3) { char q = s == 2 ? '\'' : '"'; line += q; if (c == q || c == '\\') line += '\\'; line += c; line += q; } else { if (s == 1 || special(c)) line += '\\'; line += c; } } }
    if (trail) line += ' ';
    celma::appl::ArgString2Array a(line);
    bool ok = a.mArgC == (int)words.size(); for (int i = 0; ok && i < a.mArgC; ++i) ok = words[i] == a.mpArgV[i];
    if (!ok) { printf("REPRODUCED: line <%s> splits into %d words:", line.c_str(), a.mArgC); for (int i = 0; i < a.mArgC; ++i) printf(" <%s>", a.mpArgV[i]); printf(" -- expected %zu:", words.size()); for (auto& w : words) printf(" <%s>", w.c_str()); printf("\n"); return 1; }
  } else if (kind == "ctor") {
    std::string line, name; bool with_name = false; for (int i = 2; i < argc; ++i) { std::string a = argv[i]; if (a.rfind("line=", 0) == 0) line = unhex(a.substr(5)); if (a.rfind("name=", 0) == 0) { name = unhex(a.substr(5)); with_name = true; } }
    char* pn = (char*)malloc(name.size() + 1); memcpy(pn, name.c_str(), name.size() + 1);
    { celma::appl::ArgString2Array a(line, with_name ? pn : nullptr); if (a.mpArgV == nullptr || a.mpArgV[a.mArgC] != nullptr) { printf("REPRODUCED: argv not null-terminated\n"); return 1; } for (int i = 0; i < a.mArgC; ++i) if (strlen(a.mpArgV[i]) > line.size() + name.size() + 12) return 1; }
    { celma::appl::ArgString2Array b(line); if (b.mpArgV == nullptr || b.mpArgV[b.mArgC] != nullptr) { printf("REPRODUCED: argv not null-terminated\n"); return 1; } }
    free(pn);
  }
  printf("NOT-REPRODUCED: real code satisfies the contract on this input\n"); return 0;
}
