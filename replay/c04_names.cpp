// Native replay for the C04 program-name blocks: the real Handler with the argument-file / environment-variable source switched on,
// evaluated with the given program name as argv[0].  argv: mode(0 = hfReadProgArg, 1 = hfEnvVarArgs) name=<hex>
// Any outcome but a sanitizer report / crash is fine (normal return or std::exception).
#include <cstdio>
#include <cstdlib>
#include <cstring>
#include <exception>
#include <string>
#include "celma/prog_args.hpp"
static std::string unhex(const std::string& h) { std::string r; for (size_t i = 0; i + 1 < h.size(); i += 2) r += (char)strtol(h.substr(i, 2).c_str(), 0, 16); return r; }
int main(int argc, char** argv) {
  if (argc < 3) return 2;
  int mode = atoi(argv[1]); std::string name = unhex(std::string(argv[2]).substr(5));
  char* a0 = (char*)malloc(name.size() + 1); memcpy(a0, name.c_str(), name.size() + 1);   // exactly sized: ASan sees over-reads
  char* av[2] = { a0, nullptr };
  setenv("HOME", "/nonexistent-home", 1);
  try { celma::prog_args::Handler ah(mode == 0 ? celma::prog_args::Handler::hfReadProgArg : celma::prog_args::Handler::hfEnvVarArgs);
        int v = 0; ah.addArgument("i", DEST_VAR(v), "int"); ah.evalArguments(1, av); printf("evaluated\n"); }
  catch (const std::exception& e) { printf("std::exception: %s\n", e.what()); }
  free(a0);
  printf("NOT-REPRODUCED: real code handles this program name without an invalid access\n");
  return 0;
}
