// Native replay for C10/C11: real fixed_string.hpp (no shadow, no stubs), g++ -fsanitize=address,undefined
// -fno-access-control -DCV_L=<capacity>.   argv: method  key=value ...
//   state:  len=<n> c=<hex bytes of mString[0..L)>         (object built on the heap: ASan red zones around it)
//   args:   index= count= pos= ... ch=<int>  str=<hex> (C string / buffer / std::string content)  other_len= other_c=
// Checks: sanitizer-clean, WF (len <= L, NUL at len), and the std::string oracle for the operation.
#include "celma/common/fixed_string.hpp"
#include <cstdio>
#include <cstdlib>
#include <cstring>
#include <map>
#include <string>
typedef celma::common::FixedString<CV_L> FS;
#ifndef CV_S
#define CV_S CV_L
#endif
typedef celma::common::FixedString<CV_S> FS2;
static std::map<std::string, std::string> A;
static size_t Z(const char* k, size_t d = 0) { return A.count(k) ? strtoull(A[k].c_str(), 0, 10) : d; }
static std::string H(const char* k) { std::string r, h = A.count(k) ? A[k] : ""; for (size_t i = 0; i + 1 < h.size(); i += 2) r += (char)strtol(h.substr(i, 2).c_str(), 0, 16); return r; }
static FS* mk(const char* lk, const char* ck) { FS* o = new FS; std::string c = H(ck); size_t n = Z(lk); memset(o->mString, 0, CV_L + 1);
  for (size_t i = 0; i < CV_L && i < c.size(); ++i) o->mString[i] = c[i]; o->mLength = n; if (n <= CV_L) o->mString[n] = 0; return o; }
static FS2* mk2(const std::string& c) { FS2* o = new FS2; memset(o->mString, 0, CV_S + 1); size_t n = c.size() < CV_S ? c.size() : CV_S; for (size_t i = 0; i < n; ++i) o->mString[i] = c[i]; o->mLength = n; return o; }
static std::string view(const FS* o) { return std::string(o->mString, o->mLength <= CV_L ? o->mLength : CV_L); }
static std::string cut(const std::string& s) { return s.substr(0, CV_L); }
static int bad(const char* w, const std::string& e, const std::string& g) { printf("REPRODUCED: %s: expected \"%s\" (len %zu) got \"%s\" (len %zu)\n", w, e.c_str(), e.size(), g.c_str(), g.size()); return 1; }
static int sgn(int x) { return (x > 0) - (x < 0); }
int main(int argc, char** argv) {
  if (argc < 2) return 2;
  std::string m = argv[1];
  for (int i = 2; i < argc; ++i) { std::string a = argv[i]; size_t e = a.find('='); if (e != std::string::npos) A[a.substr(0, e)] = a.substr(e + 1); }
  FS* o = mk("len", "c"); std::string old = view(o), exp = old; bool content = A.count("content") != 0; // content=1: C11 oracle on
  size_t index = Z("index"), count = Z("count"), pos = Z("pos"), pos2 = Z("pos2"), count2 = Z("count2"), index_str = Z("index_str"), pos1 = Z("pos1"), count1 = Z("count1"), idx = Z("idx"), i1 = Z("i1"), i2 = Z("i2");
  char ch = (char)Z("ch"); std::string sv = H("str");
  // heap copy of exactly the right size so ASan sees over-reads of the source
  if (A.count("strlen") && Z("strlen") > sv.size()) sv.append(Z("strlen") - sv.size(), 'x');   // source longer than the materialised bytes
  char* cstr = (char*)malloc(sv.size() + 1); memcpy(cstr, sv.data(), sv.size()); cstr[sv.size()] = 0;
  char* buf = (char*)malloc(sv.size() ? sv.size() : 1); memcpy(buf, sv.data(), sv.size());
  std::string S = sv;
  long r = 0, er = 0; bool have_r = false;
#define MUT(id, call, oracle) else if (m == id) { o->call; if (content) { std::string t = old; oracle; exp = cut(t); } }
#define OBS(id, call, oracle) else if (m == id) { r = (long)(o->call); have_r = true; if (content) { std::string t = old; er = (long)(oracle); } }
  if (0) {}
  MUT("insert_cc", insert(index, count, ch), t.insert(index, std::min<size_t>(count, 2 * CV_L + 2), ch))
  MUT("insert_sn", insert(index, buf, count), t.insert(index, buf, count))
  MUT("insert_s", insert(index, cstr), t.insert(index, cstr))
  MUT("insert_S", insert(index, S), t.insert(index, S))
  MUT("insert_Spc", insert(index, S, index_str, count), t.insert(index, S, index_str, count))
  MUT("erase", erase(index, count), t.erase(index, count))
  MUT("push_back", push_back(ch), t.push_back(ch))
  MUT("pop_back", pop_back(), t.pop_back())
  MUT("append_cc", append(count, ch), t.append(std::min<size_t>(count, 2 * CV_L + 2), ch))
  MUT("append_S", append(S), t.append(S))
  MUT("append_Spc", append(S, pos, count), t.append(S, pos, count))
  MUT("append_sn", append(cstr, count), t.append(cstr, count))
  MUT("append_s", append(cstr), t.append(cstr))
  MUT("pluseq_S", operator+=(S), t += S)
  MUT("pluseq_s", operator+=(cstr), t += cstr)
  MUT("pluseq_c", operator+=(ch), t += ch)
  MUT("replace_pcS", replace(pos, count, S), t.replace(pos, count, S))
  MUT("replace_pcSpc", replace(pos, count, S, pos2, count2), t.replace(pos, count, S, pos2, count2))
  MUT("replace_pcs", replace(pos, count, cstr), t.replace(pos, count, cstr))
  MUT("replace_pcsn", replace(pos, count, cstr, count2), t.replace(pos, count, cstr, count2))
  MUT("replace_pccc", replace(pos, count, count2, ch), t.replace(pos, count, std::min<size_t>(count2, 2 * CV_L + 2), ch))
  MUT("assign_s", assign(cstr), t.assign(cstr))
  MUT("assign_S", assign(S), t.assign(S))
  MUT("opassign_s", operator=(cstr), t = cstr)
  MUT("opassign_S", operator=(S), t = S)
  MUT("clear", clear(), t.clear())
  OBS("compare_S", compare(S), sgn(t.compare(S)))
  OBS("compare_s", compare(cstr), sgn(t.compare(cstr)))
  OBS("compare_pcS", compare(pos1, count1, S), sgn(t.compare(pos1, count1, S)))
  OBS("compare_pcs", compare(pos1, count1, cstr), sgn(t.compare(pos1, count1, cstr)))
  OBS("compare_pcSpc", compare(pos1, count1, S, pos2, count2), sgn(t.compare(pos1, count1, S, pos2, count2)))
  OBS("compare_pcsn", compare(pos1, count1, cstr, count2), sgn(t.compare(pos1, count1, cstr, count2)))
  OBS("starts_with_S", starts_with(S), t.compare(0, S.size(), S) == 0)
  OBS("starts_with_s", starts_with(cstr), t.compare(0, strlen(cstr), cstr) == 0)
  OBS("starts_with_c", starts_with(ch), !t.empty() && t.front() == ch)
  OBS("ends_with_S", ends_with(S), t.size() >= S.size() && t.compare(t.size() - S.size(), S.size(), S) == 0)
  OBS("ends_with_s", ends_with(cstr), t.size() >= strlen(cstr) && t.compare(t.size() - strlen(cstr), strlen(cstr), cstr) == 0)
  OBS("ends_with_c", ends_with(ch), !t.empty() && t.back() == ch)
  OBS("contains_S", contains(S), t.find(S) != std::string::npos)
  OBS("contains_s", contains(cstr), t.find(cstr) != std::string::npos)
  OBS("contains_c", contains(ch), t.find(ch) != std::string::npos)
  OBS("find_S", find(S, pos), t.find(S, pos))
  OBS("find_spn", find(buf, pos, count), t.find(buf, pos, count))
  OBS("find_sp", find(cstr, pos), t.find(cstr, pos))
  OBS("find_c", find(ch, pos), t.find(ch, pos))
  OBS("rfind_S", rfind(S, pos), t.rfind(S, pos))
  OBS("rfind_spn", rfind(cstr, pos, count), t.rfind(cstr, pos, count))
  OBS("rfind_sp", rfind(cstr, pos), t.rfind(cstr, pos))
  OBS("rfind_c", rfind(ch, pos), t.rfind(ch, pos))
#define FAM(f) OBS(#f "_S", f(S, pos), t.f(S, pos)) OBS(#f "_spn", f(buf, pos, count), t.f(buf, pos, count)) OBS(#f "_sp", f(cstr, pos), t.f(cstr, pos)) OBS(#f "_c", f(ch, pos), t.f(ch, pos))
  FAM(find_first_of) FAM(find_first_not_of) FAM(find_last_of) FAM(find_last_not_of)
  // iterator-taking overloads: an iterator argument is given as index (npos = end())
#define IT(i) ((i) == std::string::npos ? o->cend() : FS::const_iterator(o, (i)))
#define SI(i) ((i) == std::string::npos ? t.end() : t.begin() + (i))
  MUT("insert_it_c", insert(IT(i1), ch), t.insert(SI(i1), ch))
  MUT("insert_it_nc", insert(IT(i1), count, ch), t.insert(SI(i1), std::min<size_t>(count, 2 * CV_L + 2), ch))
  MUT("erase_it", erase(IT(i1)), t.erase(SI(i1)))
  MUT("erase_it2", erase(IT(i1), IT(i2)), t.erase(SI(i1), SI(i2)))
  MUT("replace_it2_s", replace(IT(i1), IT(i2), cstr), t.replace(SI(i1), SI(i2), cstr))
  MUT("replace_it2_sn", replace(IT(i1), IT(i2), cstr, count2), t.replace(SI(i1), SI(i2), cstr, count2))
  MUT("replace_it2_cc", replace(IT(i1), IT(i2), count2, ch), t.replace(SI(i1), SI(i2), std::min<size_t>(count2, 2 * CV_L + 2), ch))
  MUT("insert_it_il", insert(IT(i1), std::initializer_list<char>(buf, count2)), t.insert(SI(i1), buf, buf + count2))   // private (pointer, length) constructor: -fno-access-control
  MUT("replace_it2_il", replace(IT(i1), IT(i2), std::initializer_list<char>(buf, count2)), t.replace(SI(i1), SI(i2), buf, count2))
  else if (m == "replace_it2_si") { size_t j1 = Z("j1"), j2 = Z("j2"); o->replace(IT(i1), IT(i2), S.begin() + j1, S.begin() + j2); if (content) { std::string t = old; t.replace(SI(i1), SI(i2), S.begin() + j1, S.begin() + j2); exp = cut(t); } }
  else if (m == "replace_it2_ii") { FS* p = mk("other_len", "other_c"); std::string po = view(p); size_t j1 = Z("j1"), j2 = Z("j2");
    FS::iterator f = (j1 == std::string::npos) ? p->end() : FS::iterator(p, j1), l = (j2 == std::string::npos) ? p->end() : FS::iterator(p, j2);
    o->replace(IT(i1), IT(i2), f, l); if (content) { std::string t = old; t.replace(SI(i1), SI(i2), j1 == std::string::npos ? po.end() : po.begin() + j1, j2 == std::string::npos ? po.end() : po.begin() + j2); exp = cut(t); } delete p; }
  else if (m == "append_it2") { FS* p = mk("other_len", "other_c"); std::string po = view(p);
    FS::const_iterator f = (i1 == std::string::npos) ? p->cend() : FS::const_iterator(p, i1), l = (i2 == std::string::npos) ? p->cend() : FS::const_iterator(p, i2);
    o->append(f, l); if (content) { std::string t = old; t.append(i1 == std::string::npos ? po.end() : po.begin() + i1, i2 == std::string::npos ? po.end() : po.begin() + i2); exp = cut(t); } delete p; }
  // cross-capacity members: the other operand is a FixedString<CV_S> holding the bytes of str=
#define XM(id, call, oracle) else if (m == id) { FS2* q = mk2(sv); o->call; if (content) { std::string t = old; oracle; exp = cut(t); } delete q; }
#define XO(id, call, oracle) else if (m == id) { FS2* q = mk2(sv); r = (long)(o->call); have_r = true; if (content) { std::string t = old; er = (long)(oracle); } delete q; }
  XM("insert_G", insert(index, *q), t.insert(index, S))
  XM("insert_Gpc", insert(index, *q, index_str, count), t.insert(index, S, index_str, count))
  XM("append_G", append(*q), t.append(S))
  XM("append_Gpc", append(*q, pos, count), t.append(S, pos, count))
  XM("pluseq_G", operator+=(*q), t += S)
  XM("replace_pcG", replace(pos, count, *q), t.replace(pos, count, S))
  XM("replace_pcGpc", replace(pos, count, *q, pos2, count2), t.replace(pos, count, S, pos2, count2))
  XM("assign_G", assign(*q), t.assign(S))
  XM("opassign_G", operator=(*q), t = S)
  XO("compare_G", compare(*q), sgn(t.compare(S)))
  XO("compare_pcG", compare(pos1, count1, *q), sgn(t.compare(pos1, count1, S)))
  XO("compare_pcGpc", compare(pos1, count1, *q, pos2, count2), sgn(t.compare(pos1, count1, S, pos2, count2)))
  XO("starts_with_G", starts_with(*q), t.compare(0, S.size(), S) == 0)
  XO("ends_with_G", ends_with(*q), t.size() >= S.size() && t.compare(t.size() - S.size(), S.size(), S) == 0)
  XO("contains_G", contains(*q), t.find(S) != std::string::npos)
  else if (m == "eq_G" || m == "ne_G") { FS2* q = mk2(sv); bool e = (*o == *q), n = (*o != *q); have_r = true; r = (m == "eq_G") ? e : n; er = (m == "eq_G") ? (old == S) : (old != S);
    if (content && e == n) { printf("REPRODUCED: operator== and operator!= both %d\n", (int)e); return 1; } delete q; }
  else if (m == "ctor_G") { FS2* q = mk2(sv); delete o; o = new FS(*q); if (content) exp = cut(S); delete q; }
  OBS("index", operator[](idx), t.c_str()[idx])
  OBS("front", front(), t.c_str()[0])
  OBS("back", back(), t.empty() ? 0 : t.back())
  else if (m == "swap" || m.find("_F") != std::string::npos || m == "eq" || m == "ne") {
    FS* p = mk("other_len", "other_c"); std::string po = view(p);
    if (m == "swap") { o->swap(*p); exp = cut(po); if (p->mLength > CV_L || p->mString[p->mLength] != 0) return bad("swap: other not well-formed", old, view(p)); if (content && view(p) != old) return bad("swap: other", old, view(p)); content = true; }
    else { have_r = true; std::string t = old;
      if (m == "find_F") { r = o->find(*p, pos); er = t.find(po, pos); } else if (m == "rfind_F") { r = o->rfind(*p, pos); er = t.rfind(po, pos); }
      else if (m == "find_first_of_F") { r = o->find_first_of(*p, pos); er = t.find_first_of(po, pos); } else if (m == "find_first_not_of_F") { r = o->find_first_not_of(*p, pos); er = t.find_first_not_of(po, pos); }
      else if (m == "find_last_of_F") { r = o->find_last_of(*p, pos); er = t.find_last_of(po, pos); } else if (m == "find_last_not_of_F") { r = o->find_last_not_of(*p, pos); er = t.find_last_not_of(po, pos); }
      else if (m == "eq") { r = (*o == *p); er = (t == po); bool n = (*o != *p); if (content && n == (bool)r) { printf("REPRODUCED: operator== and operator!= both %d\n", (int)r); return 1; } }
      else if (m == "ne") { r = (*o != *p); er = (t != po); } }
    delete p;
  }
  else if (m == "it_step" || m == "rit_step") {
    size_t op = Z("op"), val = Z("val"), n = old.size(); const size_t E = (size_t)-1; size_t got, want;
    if (!(idx == E || idx < n) || op > 5) { printf("NOT-REPRODUCED: iterator precondition violated by the inputs\n"); return 0; }
    if (m == "it_step") { FS::iterator it = (idx == E) ? o->end() : FS::iterator(o, idx);
      switch (op) { case 0: ++it; break; case 1: it++; break; case 2: --it; break; case 3: it--; break; case 4: it += val; break; default: it -= val; }
      got = it.mIndex; std::string t = old; std::string::iterator si = (idx == E) ? t.end() : t.begin() + idx; long d = (op <= 1) ? 1 : (op <= 3) ? -1 : (op == 4) ? (long)val : -(long)val;
      long pos = (si - t.begin()) + d; if (got != E && got >= n) { printf("REPRODUCED: iterator index %zu is neither end nor a valid position (length %zu)\n", got, n); return 1; } if (pos < 0 || pos > (long)n) { printf("NOT-REPRODUCED: step leaves [begin, end] (undefined for std::string too)\n"); return 0; } want = (pos == (long)n) ? E : (size_t)pos; }
    else { FS::reverse_iterator it = (idx == E) ? o->rend() : FS::reverse_iterator(o, idx);
      switch (op) { case 0: ++it; break; case 1: it++; break; case 2: --it; break; case 3: it--; break; case 4: it += val; break; default: it -= val; }
      got = it.mIndex; long rp = (idx == E) ? (long)n : (long)(n - 1 - idx); long d = (op <= 1) ? 1 : (op <= 3) ? -1 : (op == 4) ? (long)val : -(long)val; long pos = rp + d;
      if (got != E && got >= n) { printf("REPRODUCED: iterator index %zu is neither end nor a valid position (length %zu)\n", got, n); return 1; } if (pos < 0 || pos > (long)n) { printf("NOT-REPRODUCED: step leaves [rbegin, rend] (undefined for std::string too)\n"); return 0; } want = (pos == (long)n) ? E : (size_t)(n - 1 - pos); }
    if (got != E && got >= n) { printf("REPRODUCED: iterator index %zu is neither end nor a valid position (length %zu)\n", got, n); return 1; }
    if (content && got != want) { printf("REPRODUCED: %s op %zu from index %zd gives index %zd, std::string iterator gives %zd\n", m.c_str(), op, (ssize_t)idx, (ssize_t)got, (ssize_t)want); return 1; } }
  else if (m == "it_deref" || m == "rit_deref") { if (idx < old.size()) { char c = (m == "it_deref") ? *FS::iterator(o, idx) : *FS::reverse_iterator(o, idx); if (c != old[idx]) return bad("iterator dereference", std::string(1, old[idx]), std::string(1, c)); } }
  else if (m.rfind("iter_", 0) == 0) { std::string got; bool rev = m.find("rev") != std::string::npos; const FS* co = o;
    if (m == "iter_fwd") for (auto it = o->begin(); it != o->end() && got.size() <= CV_L; ++it) got += *it;
    else if (m == "iter_cfwd") for (auto it = o->cbegin(); it != o->cend() && got.size() <= CV_L; ++it) got += *it;
    else if (m == "iter_constfwd") for (auto it = co->begin(); it != co->end() && got.size() <= CV_L; ++it) got += *it;
    else if (m == "iter_rev") for (auto it = o->rbegin(); it != o->rend() && got.size() <= CV_L; ++it) got += *it;
    else if (m == "iter_crev") for (auto it = o->crbegin(); it != o->crend() && got.size() <= CV_L; ++it) got += *it;
    else for (auto it = co->rbegin(); it != co->rend() && got.size() <= CV_L; ++it) got += *it;
    std::string e = rev ? std::string(old.rbegin(), old.rend()) : old; if (got != e) return bad(m.c_str(), e, got); }
  else if (m == "sprintf") { size_t w = Z("would"); if (w > (1u << 20)) w = (1u << 20); std::string big(w, 'x'); o->sprintf("%s", big.c_str()); }   // output of `would` characters
  else if (m == "at") { bool thrown = false; char c = 0; try { c = o->at(idx); } catch (const std::out_of_range&) { thrown = true; } size_t n = old.size();
    if (idx > CV_L && !thrown) { printf("REPRODUCED: at(%zu) on capacity %d does not throw: the reference is outside the character buffer\n", idx, CV_L); return 1; }
    if (content && ((idx < n && (thrown || c != old[idx])) || (idx > n && !thrown))) { printf("REPRODUCED: at(%zu) with length %zu: %s\n", idx, n, thrown ? "throws" : "returns"); return 1; } }
  else if (m == "copy") { char* d = (char*)malloc(count ? count : 1); memset(d, 0x55, count ? count : 1); r = o->copy(d, count, pos); have_r = true; if (content) { std::string t = old; er = t.copy(d, count, pos); } free(d); }
  else if (m == "substr") { std::string g = o->substr(pos, count); if (content) { std::string e = old.substr(pos, count); if (g != e) return bad("substr", e, g); } }
  else { printf("NOT-REPRODUCED: no replay for method %s\n", m.c_str()); return 0; }
  if (o->mLength > CV_L) { printf("REPRODUCED: length %zu exceeds capacity %d\n", (size_t)o->mLength, CV_L); return 1; }
  if (o->mString[o->mLength] != 0) { printf("REPRODUCED: not NUL-terminated at length %zu\n", (size_t)o->mLength); return 1; }
  if (content && view(o) != exp) return bad(m.c_str(), exp, view(o));
  if (content && have_r && r != er) { printf("REPRODUCED: %s returned %ld, std::string gives %ld\n", m.c_str(), r, er); return 1; }
  delete o; free(cstr); free(buf);
  printf("NOT-REPRODUCED: real code satisfies the contract on this input\n");
  return 0;
}
