// Native replay for the C04 argument-file line block: the real Handler reads a file whose second line is the counterexample line
// (the first line is a comment longer than the small-string buffer, so that the line buffer lives on the heap and ASan sees an
// access in front of / behind it).  argv: line=<hex>
#include <cstdio>
#include <cstdlib>
#include <exception>
#include <fstream>
#include <string>
#include <unistd.h>
#include "celma/appl/arg_string_2_array.hpp"
#include "celma/prog_args.hpp"
static std::string unhex(const std::string& h) { std::string r; for (size_t i = 0; i + 1 < h.size(); i += 2) r += (char)strtol(h.substr(i, 2).c_str(), 0, 16); return r; }
int main(int argc, char** argv) {
  if (argc < 2) return 2;
  std::string line = unhex(std::string(argv[1]).substr(5));
  char path[] = "/var/tmp/cv_c04_file_XXXXXX"; int fd = mkstemp(path); if (fd < 0) return 2; close(fd);
  { std::ofstream f(path); f << "# a comment line that is longer than any small-string buffer\n" << line << "\n"; }
  int rc = 0;
  try { celma::prog_args::Handler ah(0); int v = 0; ah.addArgument("i", DEST_VAR(v), "int"); ah.addArgumentFile("arg-file");
        auto const as2a = celma::appl::make_arg_array(std::string("--arg-file ") + path, nullptr); ah.evalArguments(as2a.mArgC, as2a.mpArgV); printf("evaluated\n"); }
  catch (const std::exception& e) { printf("std::exception: %s\n", e.what()); }
  unlink(path);
  printf("NOT-REPRODUCED: real code handles this line without an invalid access\n");
  return rc;
}
