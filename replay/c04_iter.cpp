// Native replay for C04 (ArgListIterator): real headers/sources, ASan/UBSan.  argv: <pattern> w=<hex> w=<hex> ...
// Every word is a heap block of exactly strlen+1 bytes; bit i of <pattern> says whether remArgStrAsVal() is called before step i.
#include "celma/prog_args/detail/arg_list_parser.hpp"
#include <cstdio>
#include <cstdlib>
#include <cstring>
#include <string>
#include <vector>
int main(int argc, char** argv) {
  if (argc < 3) return 0; unsigned pattern = strtoul(argv[1], 0, 10);
  std::vector<char*> words;
  for (int i = 2; i < argc; ++i) { std::string a = argv[i]; if (a.rfind("w=", 0) != 0) continue; a = a.substr(2); std::string w; for (size_t k = 0; k + 1 < a.size(); k += 2) w += (char)strtol(a.substr(k, 2).c_str(), 0, 16);
    char* p = (char*)malloc(w.size() + 1); memcpy(p, w.c_str(), w.size() + 1); words.push_back(p); }
  char** av = (char**)malloc((words.size() + 1) * sizeof(char*)); for (size_t i = 0; i < words.size(); ++i) av[i] = words[i]; av[words.size()] = nullptr;
  try {
    celma::prog_args::detail::ArgListParser alp((int)words.size(), av);
    auto it = alp.begin(); auto e = alp.end(); int step = 0;
    while (it != e && step < 64) { if (pattern & (1u << (step % 16))) it.remArgStrAsVal(); ++it; ++step; }
    ++it;   // Handler::iterateArguments increments once more after a sub-group argument consumed the last word: ++ on end() must be harmless
  } catch (const std::exception&) { /* an exception derived from std::exception is an allowed outcome */ }
  printf("NOT-REPRODUCED: iteration over this argv is sanitizer-clean (pattern %u)\n", pattern); return 0;
}
