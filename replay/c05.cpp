// Native replay for C05: real argument_key.cpp / storage.hpp / argument_container.cpp (+ typed_arg_base.cpp, cardinality_max.cpp,
// linked with --gc-sections), -fno-access-control.   argv: kind  key=<short or ->:<long or ->  ...  [q=<short>:<long>] [abbr=0|1] [sub=0|1] [spec=<text>]
//   add : keys are stored in the given order, the LAST key is the one being defined
//   find: all keys are stored, q is looked up      keyctor: spec text -> expected key=<short>:<long> (or bad=1)
#include "celma/prog_args/detail/argument_container.hpp"
#include "celma/prog_args/detail/argument_key.hpp"
#include "celma/prog_args/detail/typed_arg_base.hpp"
#include <cstdio>
#include <cstdlib>
#include <cstring>
#include <string>
#include <vector>
using namespace celma::prog_args::detail;
struct Dummy: public TypedArgBase { explicit Dummy(const std::string& n): TypedArgBase(n, ValueMode::none, false) {} bool hasValue() const override { return false; }
  void printValue(std::ostream&, bool) const override {} const std::string varTypeName() const override { return "dummy"; } void assign(const std::string&, bool) override {} };
struct K { char sh; std::string ln; unsigned fl; };   // fl: bit 0 hidden, 1 deprecated, 3 mandatory (state of the handler stored under the key)
static K parse(const std::string& a) { size_t c = a.find(':'); K k; std::string s = a.substr(0, c), l = a.substr(c + 1); size_t c2 = l.find(':'); k.fl = 0; if (c2 != std::string::npos) { k.fl = (unsigned)atoi(l.substr(c2 + 1).c_str()); l = l.substr(0, c2); } k.sh = (s == "-") ? 0 : s[0]; k.ln = (l == "-") ? "" : l; return k; }
static ArgumentKey mk(const K& k) { ArgumentKey a('\0'); a.mChar = k.sh; a.mWord = k.ln; return a; }
static bool same(const K& a, const K& b) { return (a.sh && a.sh == b.sh) || (!a.ln.empty() && a.ln == b.ln) || (!a.sh && a.ln.empty() && !b.sh && b.ln.empty()) /* positional */; }
int main(int argc, char** argv) {
  if (argc < 2) return 2; std::string kind = argv[1]; std::vector<K> keys; K q{0, "", 0}; bool abbr = true, bad = false, sub = false; std::string spec;
  for (int i = 2; i < argc; ++i) { std::string a = argv[i]; if (a.rfind("key=", 0) == 0) keys.push_back(parse(a.substr(4))); else if (a.rfind("q=", 0) == 0) q = parse(a.substr(2)); else if (a.rfind("abbr=", 0) == 0) abbr = a[5] == '1'; else if (a.rfind("sub=", 0) == 0) sub = a[4] == '1'; else if (a.rfind("spec=", 0) == 0) spec = a.substr(5); else if (a == "bad=1") bad = true; }
  if (kind == "keyctor") { bool thrown = false; char sh = 0; std::string ln; try { ArgumentKey k(spec); sh = k.mChar; ln = k.mWord; } catch (const std::invalid_argument&) { thrown = true; }
    if (bad ? !thrown : (thrown || keys.empty() || sh != keys[0].sh || ln != keys[0].ln)) { printf("REPRODUCED: ArgumentKey(\"%s\") %s (short '%c', long \"%s\")\n", spec.c_str(), thrown ? "throws" : "yields", sh ? sh : '-', ln.c_str()); return 1; } }
  else { ArgumentContainer ac(abbr, sub); /* sub: the container of sub-group arguments */ std::vector<TypedArgBase*> h; size_t n = keys.size(), stored = (kind == "add") ? n - 1 : n;
    for (size_t i = 0; i < stored; ++i) { h.push_back(new Dummy("d")); h.back()->mIsHidden = (keys[i].fl & 1) != 0; h.back()->mIsDeprecated = (keys[i].fl & 2) != 0; h.back()->mIsMandatory = (keys[i].fl & 8) != 0; try { ac.addArgument(h.back(), mk(keys[i])); } catch (const std::exception&) { printf("NOT-REPRODUCED: the stored keys violate the store invariant\n"); return 0; } }
    if (kind == "add") { bool taken = false; for (size_t i = 0; i + 1 < n; ++i) taken = taken || same(keys[i], keys[n - 1]); bool thrown = false; try { ac.addArgument(new Dummy("n"), mk(keys[n - 1])); } catch (const std::exception&) { thrown = true; }
      if (thrown != taken) { printf("REPRODUCED: definition of key ('%c', \"%s\") is %s although its short/long key is %s\n", keys[n-1].sh ? keys[n-1].sh : '-', keys[n-1].ln.c_str(), thrown ? "refused" : "accepted", taken ? "already taken" : "free"); return 1; } }
    else { int exact = -1, npre = 0, pfx = -1; for (size_t i = 0; i < n; ++i) { if (same(keys[i], q)) exact = (int)i; else if (!q.ln.empty() && keys[i].ln.size() >= q.ln.size() && keys[i].ln.compare(0, q.ln.size(), q.ln) == 0) { ++npre; pfx = (int)i; } }
      bool thrown = false; TypedArgBase* r = nullptr; try { r = ac.findArg(mk(q)); } catch (const std::exception&) { thrown = true; }
      TypedArgBase* want = exact >= 0 ? h[exact] : (abbr && npre == 1 ? h[pfx] : nullptr); bool amb = exact < 0 && abbr && npre > 1;
      if (thrown != amb || (!thrown && r != want)) { printf("REPRODUCED: lookup of ('%c', \"%s\"): %s, expected %s\n", q.sh ? q.sh : '-', q.ln.c_str(), thrown ? "ambiguous (throws)" : (r ? "an argument" : "unknown"), amb ? "ambiguous" : (want ? "its own argument" : "unknown")); return 1; } } }
  printf("NOT-REPRODUCED: real code satisfies the contract on this input\n"); return 0;
}
