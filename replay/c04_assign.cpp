// Native replay for the C04 slices of typed_arg.hpp: the real Handler with a fixed-size destination of CV_N ints that lives in a heap
// block of exactly CV_N ints (ASan red zone behind it).  Build: -DCV_N=<n> -DCV_KIND=<0 C array | 1 std::array>, linked with the
// prog_args sources of /repo (see cvlib/c04.py).  argv: index first [unique]
//   index: number of values already stored when the call under test starts (the counterexample's mIndex)
//   first: 1 = the value under test is the first token of its argument word, 0 = it follows another token in the same word
// Outcome: an exception derived from std::exception or a normal return is fine; a sanitizer report (non-zero exit) reproduces.
#include <array>
#include <cstdio>
#include <cstdlib>
#include <exception>
#include <new>
#include <string>
#include "celma/appl/arg_string_2_array.hpp"
#include "celma/prog_args.hpp"
#if CV_KIND == 3
// std::vector< bool> destination of the given initial size: argv: size value.  Built with -D_GLIBCXX_ASSERTIONS: libstdc++ then checks
// the index of vector<bool>::operator[] (an access behind size() inside the last storage word is invisible to ASan)
#include <vector>
int main(int argc, char** argv) {
  if (argc < 3) return 2;
  std::vector<bool>& bits = *new std::vector<bool>(strtoull(argv[1], 0, 10));
  celma::prog_args::Handler ah(0);
  ah.addArgument("a,array", DEST_VAR(bits), "values");
  std::string line = std::string("--array=") + argv[2];
  auto const as2a = celma::appl::make_arg_array(line, nullptr);
  try { ah.evalArguments(as2a.mArgC, as2a.mpArgV); printf("accepted: %s\n", line.c_str()); }
  catch (const std::exception& e) { printf("rejected with std::exception: %s\n", line.c_str()); }
  printf("NOT-REPRODUCED: real code stays inside the destination on this input\n");
  return 0;
}
#elif CV_KIND == 2
// std::bitset destination: argv: value  -- the position text handed to TypedArg< std::bitset< N>>::assign (any integer, also negative);
// the bitset has max(CV_N, 200) bits in a heap block of its own so that a wild word index faults
#include <bitset>
int main(int argc, char** argv) {
  if (argc < 2) return 2;
  typedef std::bitset<(CV_N > 200 ? CV_N : 200)> bs_t;
  bs_t& bits = *new bs_t;
  celma::prog_args::Handler ah(0);
  ah.addArgument("a,array", DEST_VAR(bits), "values");
  std::string line = std::string("--array=") + argv[1];
  auto const as2a = celma::appl::make_arg_array(line, nullptr);
  try { ah.evalArguments(as2a.mArgC, as2a.mpArgV); printf("accepted: %s\n", line.c_str()); }
  catch (const std::exception& e) { printf("rejected with std::exception: %s\n", line.c_str()); }
  printf("NOT-REPRODUCED: real code stays inside the destination on this input\n");
  return 0;
}
#else
int main(int argc, char** argv) {
  if (argc < 3) return 2;
  size_t index = strtoull(argv[1], 0, 10); int first = atoi(argv[2]);
  if (index > CV_N) { printf("NOT-REPRODUCED: state violates the invariant mIndex <= N\n"); return 0; }
  if (!first && index == 0) { printf("NOT-REPRODUCED: a non-first token implies at least one stored value\n"); return 0; }
#if CV_KIND == 0
  typedef int arr_t[CV_N];
  arr_t& arr = *reinterpret_cast<arr_t*>(new int[CV_N]);
#else
  typedef std::array<int, CV_N> arr_t;
  arr_t& arr = *new arr_t;
#endif
  celma::prog_args::Handler ah(0);
  { auto arg = ah.addArgument("a,array", DEST_VAR(arr), "values"); if (argc > 3 && atoi(argv[3]) != 0) arg->setUniqueData(); }   // argv[3]: unique data (duplicates are skipped)
  // reach the state: `index` values stored, then one more value as first / non-first token
  std::string line; int v = 1;
  if (first) { if (index > 0) { line = "-a "; for (size_t i = 0; i < index; ++i) line += (i ? "," : "") + std::to_string(v++); line += " "; } line += "-a " + std::to_string(v++); }
  else { line = "-a "; for (size_t i = 0; i < index; ++i) line += (i ? "," : "") + std::to_string(v++); line += "," + std::to_string(v++); }
  auto const as2a = celma::appl::make_arg_array(line, nullptr);
  try { ah.evalArguments(as2a.mArgC, as2a.mpArgV); printf("accepted: %s\n", line.c_str()); }
  catch (const std::exception& e) { printf("rejected with std::exception: %s\n", line.c_str()); }
  printf("NOT-REPRODUCED: real code stays inside the destination on this input\n");
  return 0;
}
#endif
